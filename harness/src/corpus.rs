//! The repository's real meter recordings (tests/libsml-testing/*.bin) as workload input.
//! They are inputs only, never oracles.

use std::sync::OnceLock;

/// the repository under test (its working tree is what the harness is built against); VERIF_REPO is only
/// set by tooling that evaluates patches on a scratch copy
pub fn corpus_dir() -> String {
    let repo = std::env::var("VERIF_REPO").unwrap_or_else(|_| "/repo".to_string());
    format!("{}/tests/libsml-testing", repo)
}

static FILES: OnceLock<Vec<(String, Vec<u8>)>> = OnceLock::new();
static PAYLOADS: OnceLock<Vec<Vec<u8>>> = OnceLock::new();

/// raw recordings (transport level, several frames each, some with noise / errors)
pub fn files() -> &'static Vec<(String, Vec<u8>)> {
    FILES.get_or_init(|| {
        let mut v = Vec::new();
        if let Ok(rd) = std::fs::read_dir(corpus_dir()) {
            let mut names: Vec<_> = rd.filter_map(|e| e.ok()).map(|e| e.path()).collect();
            names.sort();
            for p in names {
                if p.extension().and_then(|e| e.to_str()) == Some("bin") {
                    if let Ok(b) = std::fs::read(&p) {
                        v.push((p.file_name().unwrap().to_string_lossy().to_string(), b));
                    }
                }
            }
        }
        v
    })
}

/// distinct transport payloads (= SML files) found in the recordings, extracted with the decoder
/// under test purely to obtain realistic byte strings
pub fn payloads() -> &'static Vec<Vec<u8>> {
    PAYLOADS.get_or_init(|| {
        let mut v: Vec<Vec<u8>> = Vec::new();
        let mut seen = std::collections::HashSet::new();
        for (_, b) in files() {
            let r = crate::core::guarded(|| sml_rs::transport::decode(b.iter()));
            if let Ok(items) = r {
                for it in items.into_iter().flatten() {
                    if seen.insert(crate::rng::hash_bytes(&it)) {
                        v.push(it);
                    }
                }
            }
        }
        v
    })
}
