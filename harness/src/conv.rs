//! Conversions from sml-rs' public parser types into the harness' AST, normalised error kinds,
//! and the streaming-event reassembler / list-protocol automaton.

use crate::refm::sml::*;
use sml_rs::parser::common::{ListEntry, ListType, Status, Time, Value};
use sml_rs::parser::streaming::{self, ParseEvent};
use sml_rs::parser::{complete, ParseError, TlfParseError};

#[derive(Clone, Copy, Debug, PartialEq, Eq, Hash)]
pub enum PKind {
    Leftover,
    Eof,
    TlfOverflow,
    TlfReserved,
    TlfUnderflow,
    TlfNextByte,
    TlfInvalidTy,
    Mismatch,
    Crc,
    MsgEnd,
    Variant,
}

impl PKind {
    pub fn of(e: &ParseError) -> PKind {
        if crate::fe::FORMAT_ERRORS.with(|f| f.get()) {
            std::hint::black_box((format!("{}", e).len(), format!("{:?}", e).len()));
            if let ParseError::InvalidTlf(t) = e {
                std::hint::black_box(format!("{} {:?}", t, t).len());
            }
        }
        match e {
            ParseError::LeftoverInput => PKind::Leftover,
            ParseError::UnexpectedEOF => PKind::Eof,
            ParseError::InvalidTlf(t) => match t {
                TlfParseError::TlfLengthOverflow => PKind::TlfOverflow,
                TlfParseError::TlfReserved => PKind::TlfReserved,
                TlfParseError::TlfLengthUnderflow => PKind::TlfUnderflow,
                TlfParseError::TlfNextByteTypeMismatch => PKind::TlfNextByte,
                TlfParseError::TlfInvalidTy => PKind::TlfInvalidTy,
            },
            // the &'static str names a Rust type and is not part of the kind
            ParseError::TlfMismatch(_) => PKind::Mismatch,
            ParseError::CrcMismatch => PKind::Crc,
            ParseError::MsgEndMismatch => PKind::MsgEnd,
            ParseError::UnexpectedVariant => PKind::Variant,
        }
    }
    pub fn name(&self) -> &'static str {
        match self {
            PKind::Leftover => "LeftoverInput",
            PKind::Eof => "UnexpectedEOF",
            PKind::TlfOverflow => "InvalidTlf(Overflow)",
            PKind::TlfReserved => "InvalidTlf(Reserved)",
            PKind::TlfUnderflow => "InvalidTlf(Underflow)",
            PKind::TlfNextByte => "InvalidTlf(NextByteType)",
            PKind::TlfInvalidTy => "InvalidTlf(InvalidTy)",
            PKind::Mismatch => "TlfMismatch",
            PKind::Crc => "CrcMismatch",
            PKind::MsgEnd => "MsgEndMismatch",
            PKind::Variant => "UnexpectedVariant",
        }
    }
}

pub fn conv_time(t: &Time) -> ATime {
    match t {
        Time::SecIndex(x) => ATime::SecIndex(*x),
    }
}

pub fn conv_value(v: &Value) -> AValue {
    match v {
        Value::Bool(b) => AValue::Bool(*b),
        Value::Bytes(b) => AValue::Bytes(b.to_vec()),
        Value::I8(x) => AValue::I8(*x),
        Value::I16(x) => AValue::I16(*x),
        Value::I32(x) => AValue::I32(*x),
        Value::I64(x) => AValue::I64(*x),
        Value::U8(x) => AValue::U8(*x),
        Value::U16(x) => AValue::U16(*x),
        Value::U32(x) => AValue::U32(*x),
        Value::U64(x) => AValue::U64(*x),
        Value::List(ListType::Time(t)) => AValue::List(conv_time(t)),
    }
}

pub fn conv_status(s: &Status) -> AStatus {
    match s {
        Status::Status8(x) => AStatus::S8(*x),
        Status::Status16(x) => AStatus::S16(*x),
        Status::Status32(x) => AStatus::S32(*x),
        Status::Status64(x) => AStatus::S64(*x),
    }
}

fn ov(o: &Option<&[u8]>) -> Option<Vec<u8>> {
    o.map(|s| s.to_vec())
}

pub fn conv_entry(e: &ListEntry) -> AEntry {
    AEntry {
        obj_name: e.obj_name.to_vec(),
        status: e.status.as_ref().map(conv_status),
        val_time: e.val_time.as_ref().map(conv_time),
        unit: e.unit,
        scaler: e.scaler,
        value: conv_value(&e.value),
        value_signature: ov(&e.value_signature),
    }
}

fn conv_open(o: &sml_rs::parser::common::OpenResponse) -> AOpen {
    AOpen {
        codepage: ov(&o.codepage),
        client_id: ov(&o.client_id),
        req_file_id: o.req_file_id.to_vec(),
        server_id: o.server_id.to_vec(),
        ref_time: o.ref_time.as_ref().map(conv_time),
        sml_version: o.sml_version,
    }
}

pub fn conv_file(f: &complete::File) -> AFile {
    AFile {
        messages: f
            .messages
            .iter()
            .map(|m| AMsg {
                transaction_id: m.transaction_id.to_vec(),
                group_no: m.group_no,
                abort_on_error: m.abort_on_error,
                body: match &m.message_body {
                    complete::MessageBody::OpenResponse(o) => ABody::Open(conv_open(o)),
                    complete::MessageBody::CloseResponse(c) => ABody::Close(AClose {
                        global_signature: ov(&c.global_signature),
                    }),
                    complete::MessageBody::GetListResponse(g) => ABody::GetList(AGetList {
                        client_id: ov(&g.client_id),
                        server_id: g.server_id.to_vec(),
                        list_name: ov(&g.list_name),
                        act_sensor_time: g.act_sensor_time.as_ref().map(conv_time),
                        val_list: g.val_list.iter().map(conv_entry).collect(),
                        list_signature: ov(&g.list_signature),
                        act_gateway_time: g.act_gateway_time.as_ref().map(conv_time),
                    }),
                },
            })
            .collect(),
    }
}

/// `complete::parse` observed at the API
pub fn run_complete(x: &[u8]) -> Result<AFile, PKind> {
    match complete::parse(x) {
        Ok(f) => Ok(conv_file(&f)),
        Err(e) => Err(PKind::of(&e)),
    }
}

#[derive(Clone, Debug, PartialEq, Eq)]
pub struct AListStart {
    pub client_id: Option<Vec<u8>>,
    pub server_id: Vec<u8>,
    pub list_name: Option<Vec<u8>>,
    pub act_sensor_time: Option<ATime>,
    pub num_vals: u32,
}

#[derive(Clone, Debug, PartialEq, Eq)]
pub enum SBody {
    Open(AOpen),
    Close(AClose),
    ListStart(AListStart),
}

#[derive(Clone, Debug, PartialEq, Eq)]
pub enum SEv {
    Start {
        transaction_id: Vec<u8>,
        group_no: u8,
        abort_on_error: u8,
        body: SBody,
    },
    Entry(AEntry),
    End {
        list_signature: Option<Vec<u8>>,
        act_gateway_time: Option<ATime>,
    },
}

pub fn conv_event(ev: &ParseEvent) -> SEv {
    match ev {
        ParseEvent::MessageStart(m) => SEv::Start {
            transaction_id: m.transaction_id.to_vec(),
            group_no: m.group_no,
            abort_on_error: m.abort_on_error,
            body: match &m.message_body {
                streaming::MessageBody::OpenResponse(o) => SBody::Open(conv_open(o)),
                streaming::MessageBody::CloseResponse(c) => SBody::Close(AClose {
                    global_signature: ov(&c.global_signature),
                }),
                streaming::MessageBody::GetListResponse(g) => SBody::ListStart(AListStart {
                    client_id: ov(&g.client_id),
                    server_id: g.server_id.to_vec(),
                    list_name: ov(&g.list_name),
                    act_sensor_time: g.act_sensor_time.as_ref().map(conv_time),
                    num_vals: g.num_vals,
                }),
            },
        },
        ParseEvent::ListEntry(e) => SEv::Entry(conv_entry(e)),
        ParseEvent::GetListResponseEnd(e) => SEv::End {
            list_signature: ov(&e.list_signature),
            act_gateway_time: e.act_gateway_time.as_ref().map(conv_time),
        },
    }
}

/// What one complete iteration of the streaming parser looked like at the API.
#[derive(Clone, Debug, PartialEq, Eq)]
pub struct StreamRun {
    /// Ok events up to the first Err / None
    pub events: Vec<SEv>,
    /// the first error, if the iteration ended with one
    pub first_err: Option<PKind>,
    /// items yielded before the first None (events + errors)
    pub items_before_none: usize,
    /// what the `extra` further calls after the first Err / None returned that was not None
    pub late_items: Vec<String>,
    /// the item bound was hit (iteration did not end within `max_items`)
    pub hit_item_bound: bool,
    /// hook: pending counter when the first error was produced
    pub pending_at_err: Option<u64>,
}

/// Drives a streaming parser by hand (never `for`): at most `max_items` items, then `extra` further calls.
pub fn drive_parser(mut p: streaming::Parser, max_items: usize, extra: usize) -> StreamRun {
    let mut run = StreamRun {
        events: Vec::new(),
        first_err: None,
        items_before_none: 0,
        late_items: Vec::new(),
        hit_item_bound: false,
        pending_at_err: None,
    };
    let mut ended = false;
    while run.items_before_none < max_items {
        let pending_before = p.verif_pending();
        match p.next() {
            None => {
                ended = true;
                break;
            }
            Some(Ok(ev)) => {
                run.items_before_none += 1;
                run.events.push(conv_event(&ev));
            }
            Some(Err(e)) => {
                run.items_before_none += 1;
                run.first_err = Some(PKind::of(&e));
                run.pending_at_err = Some(pending_before);
                ended = true;
                break;
            }
        }
    }
    if !ended {
        run.hit_item_bound = true;
        return run;
    }
    for k in 0..extra {
        match p.next() {
            None => {}
            Some(Ok(ev)) => run.late_items.push(format!("call +{}: Ok({:?})", k + 1, conv_event(&ev))),
            Some(Err(e)) => run.late_items.push(format!("call +{}: Err({:?})", k + 1, e)),
        }
    }
    run
}

pub fn run_streaming(x: &[u8], extra: usize) -> StreamRun {
    drive_parser(streaming::Parser::new(x), x.len() + 2, extra)
}

/// Checks the list protocol and reassembles the events into a file.
/// Err(description) if the event sequence violates the protocol
/// (MessageStart(num_vals = n), exactly n ListEntry, one GetListResponseEnd, before the next MessageStart).
/// `complete` says whether the iteration ended with None (then no message may be left open).
pub fn reassemble(events: &[SEv], ended_cleanly: bool) -> Result<AFile, String> {
    let mut msgs = Vec::new();
    // open list response: (message header, start, entries)
    let mut open: Option<(Vec<u8>, u8, u8, AListStart, Vec<AEntry>)> = None;
    for (i, ev) in events.iter().enumerate() {
        match ev {
            SEv::Start {
                transaction_id,
                group_no,
                abort_on_error,
                body,
            } => {
                if let Some((_, _, _, st, entries)) = &open {
                    return Err(format!(
                        "event {}: MessageStart while a list response is open ({} of {} entries seen, no end event)",
                        i,
                        entries.len(),
                        st.num_vals
                    ));
                }
                match body {
                    SBody::Open(o) => msgs.push(AMsg {
                        transaction_id: transaction_id.clone(),
                        group_no: *group_no,
                        abort_on_error: *abort_on_error,
                        body: ABody::Open(o.clone()),
                    }),
                    SBody::Close(c) => msgs.push(AMsg {
                        transaction_id: transaction_id.clone(),
                        group_no: *group_no,
                        abort_on_error: *abort_on_error,
                        body: ABody::Close(c.clone()),
                    }),
                    SBody::ListStart(st) => {
                        open = Some((transaction_id.clone(), *group_no, *abort_on_error, st.clone(), Vec::new()))
                    }
                }
            }
            SEv::Entry(e) => match &mut open {
                None => return Err(format!("event {}: ListEntry outside a list response", i)),
                Some((_, _, _, st, entries)) => {
                    if entries.len() as u64 >= st.num_vals as u64 {
                        return Err(format!(
                            "event {}: more ListEntry events than the announced {}",
                            i, st.num_vals
                        ));
                    }
                    entries.push(e.clone());
                }
            },
            SEv::End {
                list_signature,
                act_gateway_time,
            } => match open.take() {
                None => return Err(format!("event {}: GetListResponseEnd outside a list response", i)),
                Some((tid, g, a, st, entries)) => {
                    if entries.len() as u64 != st.num_vals as u64 {
                        return Err(format!(
                            "event {}: GetListResponseEnd after {} entries but {} were announced",
                            i,
                            entries.len(),
                            st.num_vals
                        ));
                    }
                    msgs.push(AMsg {
                        transaction_id: tid,
                        group_no: g,
                        abort_on_error: a,
                        body: ABody::GetList(AGetList {
                            client_id: st.client_id,
                            server_id: st.server_id,
                            list_name: st.list_name,
                            act_sensor_time: st.act_sensor_time,
                            val_list: entries,
                            list_signature: list_signature.clone(),
                            act_gateway_time: act_gateway_time.clone(),
                        }),
                    })
                }
            },
        }
    }
    if ended_cleanly {
        if let Some((_, _, _, st, entries)) = &open {
            return Err(format!(
                "iteration ended without error while a list response is open ({} of {} entries, no end event)",
                entries.len(),
                st.num_vals
            ));
        }
    }
    Ok(AFile { messages: msgs })
}

pub fn refkind_matches(r: &RefErr, p: &PKind) -> bool {
    use crate::refm::tlf::TlfErr;
    matches!(
        (r, p),
        (RefErr::Eof, PKind::Eof)
            | (RefErr::Mismatch, PKind::Mismatch)
            | (RefErr::Variant, PKind::Variant)
            | (RefErr::MsgEnd, PKind::MsgEnd)
            | (RefErr::Crc, PKind::Crc)
            | (RefErr::Tlf(TlfErr::Overflow), PKind::TlfOverflow)
            | (RefErr::Tlf(TlfErr::Underflow), PKind::TlfUnderflow)
            | (RefErr::Tlf(TlfErr::ReservedBool), PKind::TlfReserved)
            | (RefErr::Tlf(TlfErr::ReservedType), PKind::TlfInvalidTy)
            | (RefErr::Tlf(TlfErr::NextByteType), PKind::TlfNextByte)
    )
}
