//! Shared monitors: the offline tiling (conservation) checker of C17 and log helpers.

use crate::fe::*;
use crate::refm::transport::START;

/// Offline tiling checker over a position-stamped push-decoder log.
/// `end`: what the final finalize()/reset() reported: Some(n) = n bytes discarded, None = nothing.
/// Returns Err(description) if the log is not a tiling of `s`.
pub fn check_tiling(s: &[u8], log: &Log, end: Option<usize>) -> Result<TilingStats, String> {
    check_tiling_opt(s, log, end, true)
}

/// `exact_ok`: the payloads in the log are real, so the range of a delivered frame is known exactly (it is
/// the canonical frame of the payload) and must begin precisely at the previous boundary.
pub fn check_tiling_opt(s: &[u8], log: &Log, end: Option<usize>, exact_ok: bool) -> Result<TilingStats, String> {
    let mut seg_start = 0usize;
    let mut st = TilingStats::default();
    for (i, ev) in log {
        let i = *i;
        if i >= s.len() {
            // events stamped |s| come from finalize and are handled through `end`
            continue;
        }
        match ev {
            TEv::Err(DErr::Discarded(n)) => {
                // the count must lead from the previous boundary exactly to a start sequence that has been
                // consumed completely by now (where in the stream the report surfaces is not prescribed)
                let st0 = seg_start + *n;
                let on_start = st0 + 8 <= s.len() && s[st0..st0 + 8] == START;
                if !on_start || st0 + 7 > i {
                    let hint = if i >= 7 && s[i - 7..=i] == START {
                        format!(
                            "exactly {} bytes lie between the previous boundary (offset {}) and the start sequence completed at position {} (offset {})",
                            (i - 7).saturating_sub(seg_start),
                            seg_start,
                            i,
                            i - 7
                        )
                    } else {
                        format!("previous boundary at offset {}, no start sequence begins at offset {}", seg_start, st0)
                    };
                    return Err(format!("DiscardedBytes({}) at position {}: {}", n, i, hint));
                }
                if *n == 0 {
                    return Err(format!("DiscardedBytes(0) at position {}", i));
                }
                st.max_discard = st.max_discard.max(*n);
                st.discards += 1;
                seg_start = st0;
            }
            TEv::Ok(_) | TEv::Err(DErr::InvalidMsg { .. }) | TEv::Err(DErr::InvalidEsc(_)) | TEv::Err(DErr::Oom) => {
                if s.len() < seg_start + 8 || s[seg_start..seg_start + 8] != START {
                    return Err(format!(
                        "{} at position {} closes the range starting at offset {}, which does not begin with a start sequence: \
                         {} byte(s) before the frame were swallowed without a discarded-bytes report",
                        ev.short(),
                        i,
                        seg_start,
                        first_start_from(s, seg_start).map(|x| x - seg_start).unwrap_or(0)
                    ));
                }
                if let (true, TEv::Ok(m)) = (exact_ok, ev) {
                    let fl = crate::refm::transport::ref_frame_len(m);
                    if i + 1 < fl || i + 1 - fl != seg_start {
                        return Err(format!(
                            "Ok({}-byte payload) at position {}: its frame occupies the last {} bytes (from offset {}), but the previous boundary is at offset {}: {} byte(s) in between are accounted for by no report",
                            m.len(),
                            i,
                            fl,
                            (i + 1).saturating_sub(fl),
                            seg_start,
                            (i + 1).saturating_sub(fl).saturating_sub(seg_start)
                        ));
                    }
                }
                st.frames += 1;
                seg_start = i + 1;
            }
        }
    }
    let rest = s.len() - seg_start.min(s.len());
    match end {
        Some(n) => {
            if n != rest || rest == 0 {
                return Err(format!(
                    "at end of input {} byte(s) are unaccounted (previous boundary at offset {}) but the final report says {}",
                    rest, seg_start, n
                ));
            }
            st.max_discard = st.max_discard.max(n);
            st.final_discard = true;
        }
        None => {
            if rest != 0 {
                return Err(format!(
                    "at end of input {} byte(s) after offset {} are unaccounted but nothing was reported",
                    rest, seg_start
                ));
            }
        }
    }
    Ok(st)
}

fn first_start_from(s: &[u8], from: usize) -> Option<usize> {
    if s.len() < 8 {
        return None;
    }
    (from..=s.len() - 8).find(|&i| s[i..i + 8] == START)
}

#[derive(Default, Debug, Clone, Copy)]
pub struct TilingStats {
    pub frames: usize,
    pub discards: usize,
    pub max_discard: usize,
    pub final_discard: bool,
}

/// is this event a transmission boundary in the sense of C14 (after it the decoder must be as new)?
pub fn is_boundary(ev: &TEv) -> bool {
    matches!(
        ev,
        TEv::Ok(_) | TEv::Err(DErr::InvalidMsg { .. }) | TEv::Err(DErr::InvalidEsc(_)) | TEv::Err(DErr::Oom)
    )
}

pub fn boundary_kind(ev: &TEv) -> &'static str {
    match ev {
        TEv::Ok(_) => "delivered",
        TEv::Err(e) => e.kind(),
    }
}

/// events only (positions dropped)
pub fn events(l: &Log) -> Vec<TEv> {
    l.iter().map(|(_, e)| e.clone()).collect()
}

pub fn discard_class(n: usize) -> &'static str {
    if n < 256 {
        "<2^8"
    } else if n < 65535 {
        "<2^16-1"
    } else if n == 65535 {
        "=2^16-1"
    } else if n == 65536 {
        "=2^16"
    } else {
        ">2^16"
    }
}

/// planted-violation self-test of the tiling checker
pub fn selftest() -> Result<(), String> {
    use crate::refm::transport::ref_encode;
    let f = ref_encode(&[1, 2, 3, 4]);
    let mut s = vec![0x55; 5];
    s.extend_from_slice(&f);
    let good: Log = vec![(12, TEv::Err(DErr::Discarded(5))), (s.len() - 1, TEv::Ok(vec![1, 2, 3, 4]))];
    check_tiling(&s, &good, None).map_err(|e| format!("tiling checker rejects a correct log: {}", e))?;
    let bad1: Log = vec![(12, TEv::Err(DErr::Discarded(4))), (s.len() - 1, TEv::Ok(vec![1, 2, 3, 4]))];
    let bad2: Log = vec![(s.len() - 1, TEv::Ok(vec![1, 2, 3, 4]))];
    // a second start sequence swallowed silently: the delivered frame does not begin at the previous boundary
    let mut s2 = crate::refm::transport::START.to_vec();
    s2.extend_from_slice(&f);
    let bad3: Log = vec![(s2.len() - 1, TEv::Ok(vec![1, 2, 3, 4]))];
    if check_tiling(&s2, &bad3, None).is_ok() {
        return Err("tiling checker accepts a silently swallowed start sequence".into());
    }
    if check_tiling(&s, &bad1, None).is_ok() || check_tiling(&s, &bad2, None).is_ok() || check_tiling(&s, &good, Some(3)).is_ok() {
        return Err("tiling checker accepts a planted violation".into());
    }
    Ok(())
}
