//! C13 - the streaming parser terminates: at most |x|+1 items, at most one error, then None on every
//! further call. Bounded-progress monitor on the iterator protocol (the harness calls next() itself).

use super::pin::{self, PIn};
use crate::conv::run_streaming;
use crate::core::{Ctx, PropCase, Verdict};
use crate::ensure;
use crate::hexu::{hex_short, Case};

pub struct Term {
    pub x: Vec<u8>,
    /// further calls after the first Err / None
    pub k: usize,
    pub family: &'static str,
}

impl PropCase for Term {
    fn to_case(&self) -> Case {
        Case::new("term").h("x", &self.x).n("k", self.k).s("family", self.family)
    }
    fn from_case(c: &Case) -> Result<Self, String> {
        Ok(Term { x: c.bytes("x")?, k: c.num_or("k", 8), family: "replay" })
    }
    fn check(&self, ctx: &mut Ctx) -> Verdict {
        let x = &self.x;
        let st = run_streaming(x, self.k);
        ensure!(
            !st.hit_item_bound,
            "item-bound",
            format!("at most |x|+1 = {} items before the iteration ends", x.len() + 1),
            format!("{} items and still going ; input {}", st.items_before_none, hex_short(x))
        );
        ensure!(
            st.items_before_none <= x.len() + 1,
            "item-bound",
            format!("at most |x|+1 = {} items", x.len() + 1),
            format!("{} items", st.items_before_none)
        );
        ensure!(
            st.late_items.is_empty(),
            "none-forever",
            format!("None on each of the {} calls made after the first {}", self.k, if st.first_err.is_some() { "error" } else { "None" }),
            format!("{:?} ; input {}", st.late_items.iter().take(3).collect::<Vec<_>>(), hex_short(x))
        );
        // ---- internal iteration (`fold`, and through it `for_each` / `count` / `last`) is iterating too: at most
        // |x|+1 items, at most one error, and the error is the last item. A fold that does not end cannot be broken
        // out of, so the closure leaves through a panic that is caught right here.
        let lim = x.len() + 1;
        let folded = std::panic::catch_unwind(std::panic::AssertUnwindSafe(|| {
            sml_rs::parser::streaming::Parser::new(x).fold((0usize, 0usize, false), |(n, e, after_err), r| {
                if n > lim {
                    std::panic::panic_any("fold-runaway");
                }
                (n + 1, e + r.is_err() as usize, after_err || e > 0)
            })
        }));
        match folded {
            Err(_) => {
                ensure!(
                    false,
                    "fold-item-bound",
                    format!("Parser::fold visits at most |x|+1 = {} items", lim),
                    format!("more than {} items and still going ; input {}", lim, hex_short(x))
                );
            }
            Ok((n, e, after_err)) => {
                ensure!(
                    n <= lim && e <= 1 && !after_err,
                    "fold-one-error-then-end",
                    format!("Parser::fold visits at most {} items, at most one error, nothing after the error", lim),
                    format!("{} items, {} errors, item after an error: {} ; input {}", n, e, after_err, hex_short(x))
                );
                ctx.bump("fold-runs");
            }
        }
        let phase = match (st.first_err, st.pending_at_err) {
            (None, _) => "clean-end",
            (Some(_), Some(0)) => "message-start",
            (Some(_), Some(1)) => "crc/end-marker",
            (Some(_), Some(2)) => "list-trailer",
            (Some(_), Some(_)) => "list-entry",
            _ => "?",
        };
        let ek = st.first_err.map(|e| e.name()).unwrap_or("none");
        ctx.class_s(&format!("stopped-at={} err={} K={}", phase, ek, if self.k >= 1000 { "1000" } else { "<=64" }));
        ctx.bump(&format!("hook:error-phase:{}", phase));
        ctx.bump(if st.first_err.is_some() { "floor:ended-with-error" } else { "floor:ended-cleanly" });
        ctx.maxi("max_further_calls", self.k as u64);
        if ctx.want_sample(phase) {
            ctx.sample(phase, || format!("[{}] {} -> {} events, first error {}, then None x {}", self.family, hex_short(x), st.events.len(), ek, self.k));
        }
        Ok(())
    }
}

impl Term {
    fn of(p: PIn, k: usize) -> Term {
        Term { x: p.bytes, k, family: p.family }
    }
}

pub fn run(ctx: &mut Ctx) {
    ctx.journal_every_case(true);
    // the documented example with one flipped CRC bit, and its relatives
    if ctx.shard == 0 {
        let doc = [0x76u8, 0x05, 0xdd, 0x43, 0x44, 0x00, 0x62, 0x00, 0x62, 0x00, 0x72, 0x63, 0x02, 0x01, 0x71, 0x01, 0x63, 0xfd, 0x56, 0x00];
        for i in 0..doc.len() {
            for bit in 0..8 {
                let mut x = doc.to_vec();
                x[i] ^= 1 << bit;
                ctx.eval(&Term { x, k: 16, family: "doc-example-flip" });
            }
        }
        ctx.eval(&Term { x: Vec::new(), k: 64, family: "empty" });
    }
    let nfiles = if ctx.quick() { 3 } else { 60 };
    for f in 0..nfiles {
        let mut r = crate::rng::Rng::new(13000 + f as u64 + ctx.seed * 65537);
        let e = if f == 0 { pin::small_fixed_file(&mut r) } else { pin::gen_encoded(&mut r, true) };
        for (i, p) in pin::exhaustive_for(&e, &mut r).into_iter().enumerate() {
            if ctx.mine(i as u64) {
                let k = 1 + (i % 64);
                ctx.eval(&Term::of(p, k));
            }
        }
        // list truncated after entry k for every k
        for (k, off) in e.map.entry_offs.iter().enumerate() {
            if ctx.mine(k as u64) {
                ctx.eval(&Term { x: e.bytes[..*off].to_vec(), k: 8, family: "truncate-at-entry" });
            }
        }
    }
    let n = ctx.count(400_000, 20_000_000);
    for i in 0..n {
        let p = pin::random_input(ctx);
        let k = if i % 100 == 0 { 1000 } else { ctx.rng.range(1, 64) };
        ctx.eval(&Term::of(p, k));
    }
}

pub const FLOORS: &[&str] = &["floor:ended-with-error", "floor:ended-cleanly"];

pub const RULE: &str = "cases = (byte string x, K): every bit flip of the documented close message, per-offset corruptions / TLF substitutions / length manipulations of small files (stale and recomputed checksum), list responses truncated after every entry, \
valid multi-message files, splices, random bytes, the empty input; K further calls (1..64, 1000 for 1 %). The monitor calls next() itself: more than |x|+1 items, a second error, or anything but None on one of the K further calls is a violation \
('forever' is restated as 'for K further calls'). Cases are journalled and run in a subprocess with a progress watchdog. Distinct/non-trivial = distinct (parser phase at the first error [hook, evidence only], first-error kind, K class) tuples";
