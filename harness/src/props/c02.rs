//! C02 - decoder soundness. Suffix oracle: whenever a front-end reports Ok(m) after consuming byte i of
//! a stream s, s[..=i] must end with the canonical Transport v1 frame of m (own encoder, own CRC).

use crate::core::{Ctx, PropCase, Verdict};
use crate::ensure;
use crate::fe::*;
use crate::gen::{payload, stream};
use crate::hexu::{hex_short, Case};
use crate::refm::transport::{ends_with_canonical_frame, find_all, ref_encode, START};

pub struct Sound {
    pub s: Vec<u8>,
    /// also run the pull front-ends (F2, F3, readers)
    pub all_fe: bool,
    pub origin: &'static str,
}

fn classify(ctx: &mut Ctx, s: &[u8], log: &Log) {
    for (pos, ev) in log {
        match ev {
            TEv::Ok(m) => {
                ctx.bump("ok_events");
                if ref_encode(m) != s {
                    ctx.bump("floor:ok-on-non-encoder-stream");
                }
                let t = payload::trailing_run(m, 0x1b);
                if t % 4 != 0 {
                    ctx.bump("floor:ok-after-realignment");
                }
            }
            TEv::Err(DErr::InvalidMsg {
                crc_read,
                crc_calc,
                misaligned,
                pad,
                invalid_pad,
            }) => {
                let crc_ok = crc_read == crc_calc;
                let k = match (crc_ok, *misaligned, *pad > 3, *invalid_pad) {
                    (false, false, false, false) => "floor:reject-crc-only",
                    (true, true, false, false) => "floor:reject-misaligned-only(crc valid)",
                    (true, false, true, _) => "floor:reject-pad>3(crc valid)",
                    (true, false, false, true) => "floor:reject-pad>zeros(crc valid)",
                    (true, _, _, _) => "reject-multiple(crc valid)",
                    (false, _, _, _) => "reject-multiple(crc bad)",
                };
                ctx.bump(k);
            }
            TEv::Err(DErr::InvalidEsc(_)) => ctx.bump("floor:reject-InvalidEsc"),
            TEv::Err(DErr::Discarded(n)) => {
                // a discard whose range starts with a start sequence is a restart inside a frame
                if *pos < s.len() && *n >= 8 && *pos >= 7 + n && s[pos - 7 - n..pos - 7 - n + 8] == START {
                    ctx.bump("floor:restart-discard");
                } else {
                    ctx.bump("noise-discard");
                }
            }
            TEv::Err(DErr::Oom) => ctx.bump("oom"),
        }
    }
}

impl PropCase for Sound {
    fn to_case(&self) -> Case {
        Case::new("sound").h("s", &self.s).n("all", self.all_fe as usize).s("origin", self.origin)
    }
    fn from_case(c: &Case) -> Result<Self, String> {
        Ok(Sound {
            s: c.bytes("s")?,
            all_fe: c.num_or("all", 1) != 0,
            origin: "replay",
        })
    }
    fn check(&self, ctx: &mut Ctx) -> Verdict {
        let s = &self.s;
        let oracle = |fe: &str, log: &Log| -> Verdict {
            for (pos, ev) in log {
                if let TEv::Ok(m) = ev {
                    let consumed = &s[..(*pos + 1).min(s.len())];
                    ensure!(
                        *pos < s.len() && ends_with_canonical_frame(consumed, m),
                        &format!("suffix/{}", fe),
                        format!(
                            "bytes consumed up to position {} end with the canonical frame of the reported payload {} = ..{}",
                            pos,
                            hex_short(m),
                            hex_short(&ref_encode(m))
                        ),
                        format!(
                            "Ok({}) reported, but the consumed bytes end with ..{}",
                            hex_short(m),
                            hex_short(&consumed[consumed.len().saturating_sub(ref_encode(m).len() + 4)..])
                        )
                    );
                }
            }
            Ok(())
        };
        // F1, growable buffer and an ample fixed buffer
        let l1 = run_f1(BufKind::Vec, s);
        oracle("F1/vec", &l1)?;
        classify(ctx, s, &l1);
        if let Some(n) = menu_at_least(s.len().max(1)) {
            let l = run_f1(BufKind::Arr(n), s);
            oracle("F1/arr", &l)?;
        }
        if self.all_fe {
            // F2 exposes no positions: every reported payload's canonical frame must at least occur in s
            for ev in run_f2(s, true) {
                if let TEv::Ok(m) = ev {
                    ensure!(
                        !find_all(s, &ref_encode(&m)).is_empty(),
                        "substring/F2",
                        format!("the canonical frame of {} occurs in the stream", hex_short(&m)),
                        "decode() reported a payload whose canonical frame is nowhere in the stream"
                    );
                }
            }
            let f3 = run_f3(BufKind::Vec, s, 1);
            oracle("F3/vec", &f3.log)?;
            // reader over io::Read with position stamps from the counting source
            let env = ReaderEnv::from_bytes(s);
            for (src, rb) in [(Src::Io, RBuf::Kind(BufKind::Vec)), (Src::IterVal, RBuf::Default), (Src::Slice, RBuf::Kind(BufKind::Vec))] {
                if rb == RBuf::Default && s.len() > 8192 {
                    continue;
                }
                let mut rd = new_reader(&env, src, rb);
                let mut log = Log::new();
                for _ in 0..s.len() + 3 {
                    match rd.r.call(Api::Next, Target::Bytes) {
                        ROut::None => break,
                        ROut::Bytes(m) => {
                            let pos = (rd.pulled)().map(|n| n.saturating_sub(1));
                            match pos {
                                Some(p) => log.push((p, TEv::Ok(m))),
                                None => {
                                    ensure!(
                                        !find_all(s, &ref_encode(&m)).is_empty(),
                                        "substring/reader-slice",
                                        "canonical frame of the payload occurs in the stream",
                                        format!("payload {} has no canonical frame in the stream", hex_short(&m))
                                    );
                                }
                            }
                        }
                        _ => {}
                    }
                }
                oracle(&format!("R/{}", src.name()), &log)?;
            }
            ctx.bump("streams_on_all_front_ends");
        }
        ctx.bump(&format!("origin:{}", self.origin));
        // observed situation class: multiset of event kinds + stream size class
        let mut kinds: Vec<&str> = l1
            .iter()
            .map(|(_, e)| match e {
                TEv::Ok(_) => "Ok",
                TEv::Err(e) => e.kind(),
            })
            .collect();
        kinds.sort();
        kinds.dedup();
        let key = crate::rng::hash_str(&format!("{:?}{}", kinds, l1.len().min(6)));
        let n = l1.len();
        ctx.class(key, || format!("events={} kinds={:?}", n.min(6), kinds));
        if ctx.want_sample(self.origin) {
            let t = log_str(&l1);
            ctx.sample(self.origin, || format!("stream={} -> {}", hex_short(s), t));
        }
        Ok(())
    }
}

/// deterministic streams that put each structural check behind a *valid* CRC
fn crafted() -> Vec<Vec<u8>> {
    use crate::gen::stream::{assemble, CrcMode, FrameSpec};
    let mut rng = crate::rng::Rng::new(1);
    let mut v = Vec::new();
    let base = |body: &[u8], zeros: usize, pad: u8, mis: &[u8]| FrameSpec {
        start: START.to_vec(),
        body: body.to_vec(),
        zeros,
        misalign: mis.to_vec(),
        end_byte: 0x1a,
        pad,
        crc: CrcMode::Correct,
    };
    // misaligned only
    v.push(assemble(&base(&[1, 2, 3, 4, 5], 0, 0, &[]), &mut rng));
    v.push(assemble(&base(&[1, 2, 3, 4], 0, 0, &[9]), &mut rng));
    // pad > 3 with enough zeros
    v.push(assemble(&base(&[1, 2, 3, 4], 4, 4, &[]), &mut rng));
    v.push(assemble(&base(&[1, 2, 3, 4], 8, 5, &[]), &mut rng));
    // pad larger than the zeros available
    v.push(assemble(&base(&[1, 2, 3], 1, 2, &[]), &mut rng));
    v.push(assemble(&base(&[1, 2, 3, 4], 0, 1, &[]), &mut rng));
    v.push(assemble(&base(&[], 0, 3, &[]), &mut rng));
    // invalid escape
    let mut f = START.to_vec();
    f.extend_from_slice(&[1, 2, 3, 4, 0x1b, 0x1b, 0x1b, 0x1b, 0x02, 0, 0, 0]);
    v.push(f);
    // crc only
    let mut s = base(&[1, 2, 3, 4], 0, 0, &[]);
    s.crc = CrcMode::LowBitOff;
    v.push(assemble(&s, &mut rng));
    // restart inside a frame
    let mut f = START.to_vec();
    f.extend_from_slice(&[7, 7, 7, 7]);
    f.extend_from_slice(&ref_encode(&[1, 2, 3]));
    v.push(f);
    // payload ending in 1..3 0x1b without padding (re-alignment)
    v.push(ref_encode(&[1, 2, 3, 0x1b]));
    v.push(ref_encode(&[1, 2, 0x1b, 0x1b]));
    v.push(ref_encode(&[1, 0x1b, 0x1b, 0x1b]));
    // re-alignment look-alike with non-canonical framing: 1b run + 1a at a misaligned place
    v.push(assemble(&base(&[1, 2, 0x1b], 0, 0, &[]), &mut rng));
    // valid frame followed by garbage, two frames back to back
    let mut f = ref_encode(&[0xaa]);
    f.extend_from_slice(&ref_encode(&[0xbb, 0, 0]));
    v.push(f);
    v
}

pub fn run(ctx: &mut Ctx) {
    // crafted cases (the floors rely on them): shard 0 runs them all
    if ctx.shard == 0 {
        for s in crafted() {
            ctx.eval(&Sound { s, all_fe: true, origin: "crafted" });
        }
    }
    // exhaustive small bodies x every pad byte 0..4, correct CRC
    let maxlen: u32 = match (ctx.quick(), ctx.profile.as_str()) {
        (true, "chk") => 5,
        (true, _) => 4,
        (false, "chk") => 7,
        (false, _) => 6,
    };
    let total = payload::count_upto(5, maxlen);
    let mut n = 0;
    for i in 0..total {
        if !ctx.mine(i) {
            continue;
        }
        let body = payload::nth_string(&stream::SIGMA2, i);
        for pad in [0u8, 1, 2, 3, 4, 0x80, 0xf0, 0xff] {
            let s = stream::small_frame(&body, pad);
            ctx.eval(&Sound { s, all_fe: false, origin: "exhaustive-small" });
            n += 1;
        }
    }
    ctx.exhaustive_space(
        &format!("START + body over {{1b,00,1a,01,55}} of length <= {} + end sequence with pad in {{0..4,80,f0,ff}} + valid CRC", maxlen),
        n,
    );
    // random adversarial streams
    let cnt = ctx.count(600_000, 30_000_000);
    for i in 0..cnt {
        let s = stream::any_stream(&mut ctx.rng);
        ctx.eval(&Sound { s, all_fe: i % 10 == 0, origin: "adversarial" });
    }
    // valid frames with one mutation each
    let cnt = ctx.count(200_000, 10_000_000);
    for i in 0..cnt {
        let p = payload::any_payload(&mut ctx.rng);
        let f = ref_encode(&p);
        let s = stream::mutate(&f, &mut ctx.rng);
        ctx.eval(&Sound { s, all_fe: i % 10 == 0, origin: "mutated-frame" });
    }
    // real recordings, whole and mutated
    for (i, (_, b)) in crate::corpus::files().iter().enumerate() {
        if ctx.mine(i as u64) {
            ctx.eval(&Sound { s: b.clone(), all_fe: true, origin: "recording" });
            for _ in 0..4 {
                let s = stream::mutate(b, &mut ctx.rng);
                ctx.eval(&Sound { s, all_fe: false, origin: "recording-mutated" });
            }
        }
    }
}

pub const FLOORS: &[&str] = &[
    "floor:ok-on-non-encoder-stream",
    "floor:ok-after-realignment",
    "floor:reject-crc-only",
    "floor:reject-misaligned-only(crc valid)",
    "floor:reject-pad>3(crc valid)",
    "floor:reject-pad>zeros(crc valid)",
    "floor:reject-InvalidEsc",
    "floor:restart-discard",
];

pub const RULE: &str = "cases = byte streams: crafted streams that put each structural check behind a valid CRC, exhaustive small frames \
(START + body over {1b,00,1a,01,55} up to the stated length + end sequence with pad byte 0..4 + attacker-computed CRC), random adversarial framings \
(non-canonical escaping, wrong pad counts, misalignment, CRC computed over whatever was emitted or off by one bit), splices, restarts, truncations, \
single mutations of valid frames with and without CRC fix-up, and the real recordings. Distinct/non-trivial = distinct (number of events capped 6, set of event kinds) \
tuples observed from the push decoder; the suffix oracle ran on every Ok event of every stream";
