//! C03 - parser completeness. Generated abstract files x valid encodings; both parsers must return
//! exactly the generated content (AST equality through the public fields).

use crate::conv::{reassemble, run_complete, run_streaming};
use crate::core::{Ctx, Fail, PropCase, Verdict};
use crate::ensure;
use crate::gen::smlgen;
use crate::hexu::{hex_short, Case};
use crate::refm::sml::*;
use crate::rng::Rng;

pub struct Complete {
    pub x: Vec<u8>,
    /// the AST the bytes were generated from (None when replaying: then the reference reading is used)
    pub ast: Option<AFile>,
    pub origin: &'static str,
    pub enc_class: String,
}

impl PropCase for Complete {
    fn to_case(&self) -> Case {
        Case::new("complete").h("x", &self.x).s("origin", self.origin)
    }
    fn from_case(c: &Case) -> Result<Self, String> {
        Ok(Complete {
            x: c.bytes("x")?,
            ast: None,
            origin: "replay",
            enc_class: String::new(),
        })
    }
    fn check(&self, ctx: &mut Ctx) -> Verdict {
        let x = &self.x;
        // harness self-consistency first: the reference reading of the encoding must be the generated AST
        let refast = match ref_parse(x) {
            Ok(a) => a,
            Err(e) => {
                ctx.inconclusive(format!("harness: reference parser rejects a generated encoding ({:?}): {}", e, hex_short(x)));
                return Ok(());
            }
        };
        if let Some(a) = &self.ast {
            if *a != refast {
                ctx.inconclusive(format!("harness: reference parser disagrees with the generator on {}", hex_short(x)));
                return Ok(());
            }
        }
        let want = refast;
        // allocating parser
        match run_complete(x) {
            Ok(got) => {
                if got != want {
                    return Err(Fail::new("complete-content", diff_hint(&want, &got).0, diff_hint(&want, &got).1));
                }
            }
            Err(k) => {
                return Err(Fail::new(
                    "complete-accepts",
                    format!("Ok(file with {} messages)", want.messages.len()),
                    format!("Err({})", k.name()),
                ));
            }
        }
        // streaming parser
        let st = run_streaming(x, 2);
        ensure!(
            st.first_err.is_none() && !st.hit_item_bound,
            "streaming-accepts",
            "no error event",
            format!("error {:?} after {} events", st.first_err.map(|e| e.name()), st.events.len())
        );
        match reassemble(&st.events, true) {
            Ok(got) => {
                if got != want {
                    return Err(Fail::new("streaming-content", diff_hint(&want, &got).0, diff_hint(&want, &got).1));
                }
            }
            Err(e) => return Err(Fail::new("streaming-protocol", "start, n entries, end per list response", e)),
        }
        // the Iterator adapters of the streaming parser must agree with plain next() (small files only)
        if st.events.len() <= 24 {
            use sml_rs::parser::streaming::Parser;
            let n = st.events.len();
            for k in 0..=n {
                let a = Parser::new(x).nth(k).map(|r| r.map(|e| crate::conv::conv_event(&e)).map_err(|e| crate::conv::PKind::of(&e)));
                let b = Parser::new(x).skip(k).next().map(|r| r.map(|e| crate::conv::conv_event(&e)).map_err(|e| crate::conv::PKind::of(&e)));
                let want_k = st.events.get(k).cloned().map(Ok);
                ensure!(
                    a == want_k && b == want_k,
                    "streaming-iterator-adapters",
                    format!("nth({}) / skip({}).next() give the same item as {} plain next() calls: {:?}", k, k, k + 1, want_k.as_ref().map(|_| "Ok(event)")),
                    format!("nth: {:?} ; skip+next: {:?}", a.as_ref().map(|r| r.as_ref().map(|_| "event").map_err(|e| e.name())), b.as_ref().map(|r| r.as_ref().map(|_| "event").map_err(|e| e.name())))
                );
            }
            let folded = Parser::new(x).fold(0usize, |k, r| k + r.is_ok() as usize);
            let mut fe = 0usize;
            Parser::new(x).for_each(|r| fe += r.is_ok() as usize);
            ensure!(folded == n && fe == n, "streaming-iterator-adapters", format!("fold / for_each visit {} events", n), format!("{} / {}", folded, fe));
            let cnt = Parser::new(x).count();
            let last_ok = Parser::new(x).last().map(|r| r.is_ok());
            ensure!(
                cnt == n && (n == 0 || last_ok == Some(true)),
                "streaming-iterator-adapters",
                format!("count() == {} and last() is the final event", n),
                format!("count() == {}, last() ok = {:?}", cnt, last_ok)
            );
        }
        // observed classes
        for m in &want.messages {
            match &m.body {
                ABody::Open(o) => {
                    ctx.bump("floor:body:open");
                    let mask = (o.codepage.is_some() as u8) | (o.client_id.is_some() as u8) << 1 | (o.ref_time.is_some() as u8) << 2 | (o.sml_version.is_some() as u8) << 3;
                    ctx.class_s(&format!("open mask={:04b}", mask));
                }
                ABody::Close(c) => {
                    ctx.bump("floor:body:close");
                    ctx.class_s(&format!("close sig={}", c.global_signature.is_some()));
                }
                ABody::GetList(g) => {
                    ctx.bump("floor:body:getlist");
                    let n = g.val_list.len();
                    let lc = match n {
                        0 => "0",
                        1..=14 => "1-14",
                        15 => "15",
                        16 => "16",
                        17..=255 => "17-255",
                        _ => ">=256",
                    };
                    ctx.bump(&format!("floor:listlen:{}", lc));
                    let mask = (g.client_id.is_some() as u8) | (g.list_name.is_some() as u8) << 1 | (g.act_sensor_time.is_some() as u8) << 2 | (g.list_signature.is_some() as u8) << 3 | (g.act_gateway_time.is_some() as u8) << 4;
                    ctx.class_s(&format!("getlist len={} mask={:05b} {}", lc, mask, self.enc_class));
                    for e in &g.val_list {
                        let vn = e.value.variant_name();
                        ctx.bump(&format!("floor:value:{}", vn));
                        let sm = match &e.status {
                            None => "none",
                            Some(AStatus::S8(_)) => "S8",
                            Some(AStatus::S16(_)) => "S16",
                            Some(AStatus::S32(_)) => "S32",
                            Some(AStatus::S64(_)) => "S64",
                        };
                        if sm != "none" {
                            ctx.bump(&format!("floor:status:{}", sm));
                        }
                        let emask = (e.val_time.is_some() as u8) | (e.unit.is_some() as u8) << 1 | (e.scaler.is_some() as u8) << 2 | (e.value_signature.is_some() as u8) << 3;
                        ctx.class_s(&format!("entry value={} status={} mask={:04b}", vn, sm, emask));
                    }
                }
            }
        }
        if !self.enc_class.is_empty() {
            ctx.class_s(&format!("encoding {}", self.enc_class));
        }
        ctx.bump(&format!("origin:{}", self.origin));
        if ctx.want_sample(self.origin) {
            ctx.sample(self.origin, || format!("{} bytes {} -> both parsers return the generated content ({} messages)", x.len(), hex_short(x), want.messages.len()));
        }
        Ok(())
    }
}

/// (expected, observed) description of the first difference between two files
pub fn diff_hint(want: &AFile, got: &AFile) -> (String, String) {
    if want.messages.len() != got.messages.len() {
        return (format!("{} messages", want.messages.len()), format!("{} messages", got.messages.len()));
    }
    for (i, (w, g)) in want.messages.iter().zip(got.messages.iter()).enumerate() {
        if w != g {
            if let (ABody::GetList(wl), ABody::GetList(gl)) = (&w.body, &g.body) {
                if wl.val_list.len() != gl.val_list.len() {
                    return (format!("message {}: {} list entries", i, wl.val_list.len()), format!("{} list entries", gl.val_list.len()));
                }
                for (j, (we, ge)) in wl.val_list.iter().zip(gl.val_list.iter()).enumerate() {
                    if we != ge {
                        return (format!("message {} entry {}: {:?}", i, j, we), format!("{:?}", ge));
                    }
                }
            }
            return (format!("message {}: {:?}", i, trunc(&format!("{:?}", w))), trunc(&format!("{:?}", g)));
        }
    }
    ("equal".into(), "equal".into())
}

fn trunc(s: &str) -> String {
    if s.len() > 600 {
        format!("{}..", &s[..600])
    } else {
        s.to_string()
    }
}

fn enc_class(e: &Encoded) -> String {
    format!(
        "extraTLF={} maxTLFsize={} alt-time={} std-time={}",
        match e.n_extra_tlf {
            0 => "0",
            1 => "1",
            _ => "2+",
        },
        e.max_tlf_size.min(4),
        e.n_alt_time.min(2),
        e.n_std_time.min(2)
    )
}

fn entry_with(value: AValue) -> AEntry {
    AEntry {
        obj_name: vec![1, 0, 1, 8, 0, 255],
        status: None,
        val_time: None,
        unit: Some(30),
        scaler: Some(-1),
        value,
        value_signature: None,
    }
}

fn list_file(entries: Vec<AEntry>) -> AFile {
    AFile {
        messages: vec![AMsg {
            transaction_id: vec![0xaa, 0xbb],
            group_no: 0,
            abort_on_error: 0,
            body: ABody::GetList(AGetList {
                client_id: None,
                server_id: vec![9, 8, 7],
                list_name: None,
                act_sensor_time: None,
                val_list: entries,
                list_signature: None,
                act_gateway_time: None,
            }),
        }],
    }
}

/// deterministic part: every value variant x every admissible width x boundary values, every status
/// width, single-bit optional masks, list lengths across the TLF boundaries, 1..5 messages
fn deterministic_files() -> Vec<(AFile, WidthPolicy)> {
    let mut v: Vec<(AFile, WidthPolicy)> = Vec::new();
    let mut vals: Vec<AValue> = vec![AValue::Bool(false), AValue::Bool(true), AValue::Bytes(vec![]), AValue::Bytes(vec![0x5a; 14]), AValue::Bytes(vec![0x5b; 15]), AValue::Bytes((0..300).map(|i| i as u8).collect())];
    for w in 1..=8usize {
        let bits = 8 * w as u32;
        let smin = if bits == 64 { i64::MIN } else { -(1i64 << (bits - 1)) };
        let smax = if bits == 64 { i64::MAX } else { (1i64 << (bits - 1)) - 1 };
        let umax = if bits == 64 { u64::MAX } else { (1u64 << bits) - 1 };
        for s in [smin, smin + 1, -1, 0, 1, smax - 1, smax, 0x7f, -0x80] {
            if s < smin || s > smax {
                continue;
            }
            vals.push(match w {
                1 => AValue::I8(s as i8),
                2 => AValue::I16(s as i16),
                3 | 4 => AValue::I32(s as i32),
                _ => AValue::I64(s),
            });
        }
        for u in [0u64, 1, umax >> 1, (umax >> 1) + 1, umax - 1, umax, 0x7f, 0x80, 0xff] {
            if u > umax {
                continue;
            }
            vals.push(match w {
                1 => AValue::U8(u as u8),
                2 => AValue::U16(u as u16),
                3 | 4 => AValue::U32(u as u32),
                _ => AValue::U64(u),
            });
        }
    }
    vals.push(AValue::List(ATime::SecIndex(0)));
    vals.push(AValue::List(ATime::SecIndex(u32::MAX)));
    for val in vals {
        for pol in [WidthPolicy::Minimal, WidthPolicy::Maximal] {
            v.push((list_file(vec![entry_with(val.clone())]), pol));
        }
    }
    // very long octet strings (beyond 2^16) as value, server id and list signature
    for n in [65535usize, 65536, 70000] {
        let big: Vec<u8> = (0..n).map(|i| (i % 251) as u8).collect();
        let mut f = list_file(vec![entry_with(AValue::Bytes(big.clone()))]);
        if let ABody::GetList(g) = &mut f.messages[0].body {
            g.server_id = big.clone();
            g.list_signature = Some(big);
        }
        v.push((f, WidthPolicy::Minimal));
    }
    // status widths
    for w in 1..=8usize {
        let umax = if w == 8 { u64::MAX } else { (1u64 << (8 * w)) - 1 };
        for u in [0, umax] {
            let st = match w {
                1 => AStatus::S8(u as u8),
                2 => AStatus::S16(u as u16),
                3 | 4 => AStatus::S32(u as u32),
                _ => AStatus::S64(u),
            };
            let mut e = entry_with(AValue::U8(1));
            e.status = Some(st);
            v.push((list_file(vec![e]), WidthPolicy::Minimal));
        }
    }
    // optional fields: each alone, none, all together
    for mask in [0u32, 1, 2, 4, 8, 16, 32, 64, 127] {
        let mut e = entry_with(AValue::I16(-2));
        e.status = if mask & 1 != 0 { Some(AStatus::S16(0x1234)) } else { None };
        e.val_time = if mask & 2 != 0 { Some(ATime::SecIndex(77)) } else { None };
        e.unit = if mask & 4 != 0 { Some(27) } else { None };
        e.scaler = if mask & 8 != 0 { Some(-128) } else { None };
        e.value_signature = if mask & 16 != 0 { Some(vec![1, 2, 3]) } else { None };
        let mut f = list_file(vec![e]);
        if let ABody::GetList(g) = &mut f.messages[0].body {
            g.client_id = if mask & 32 != 0 { Some(vec![]) } else { None };
            g.list_name = if mask & 64 != 0 { Some(vec![7; 16]) } else { None };
            g.act_sensor_time = if mask & 1 != 0 { Some(ATime::SecIndex(1)) } else { None };
            g.list_signature = if mask & 2 != 0 { Some(vec![0xee; 64]) } else { None };
            g.act_gateway_time = if mask & 4 != 0 { Some(ATime::SecIndex(0xffff_ff00)) } else { None };
        }
        v.push((f, WidthPolicy::Minimal));
        let open = AMsg {
            transaction_id: vec![],
            group_no: 255,
            abort_on_error: 255,
            body: ABody::Open(AOpen {
                codepage: if mask & 1 != 0 { Some(vec![0x55]) } else { None },
                client_id: if mask & 2 != 0 { Some(vec![]) } else { None },
                req_file_id: vec![],
                server_id: vec![1; 15],
                ref_time: if mask & 4 != 0 { Some(ATime::SecIndex(0x0100)) } else { None },
                sml_version: if mask & 8 != 0 { Some(1) } else { None },
            }),
        };
        let close = AMsg {
            transaction_id: vec![1; 16],
            group_no: 0,
            abort_on_error: 0,
            body: ABody::Close(AClose {
                global_signature: if mask & 16 != 0 { Some(vec![9; 33]) } else { None },
            }),
        };
        v.push((AFile { messages: vec![open, close] }, WidthPolicy::Maximal));
    }
    // list lengths across the TLF boundaries
    for n in [0usize, 1, 2, 14, 15, 16, 17, 255, 256, 300] {
        let entries = (0..n).map(|i| entry_with(AValue::U16(i as u16))).collect();
        v.push((list_file(entries), WidthPolicy::Minimal));
    }
    // lists made only of entries of the 8-byte wire minimum, last in the file and followed by a close message
    for n in [1usize, 6, 7, 8, 9, 15, 16, 25, 26, 32, 64, 255, 256, 1000] {
        for with_close in [false, true] {
            v.push((smlgen::gen_min_list_file(n, with_close), WidthPolicy::Minimal));
        }
    }
    // 0..5 messages
    for n in 0..=5usize {
        let msgs = (0..n)
            .map(|i| AMsg {
                transaction_id: vec![i as u8; i],
                group_no: i as u8,
                abort_on_error: 0,
                body: ABody::Close(AClose { global_signature: None }),
            })
            .collect();
        v.push((AFile { messages: msgs }, WidthPolicy::Minimal));
    }
    v
}

pub fn run(ctx: &mut Ctx) {
    let det = deterministic_files();
    let mut rng0 = Rng::new(7);
    for (i, (ast, pol)) in det.iter().enumerate() {
        if !ctx.mine(i as u64) {
            continue;
        }
        let mut k = Knobs::canonical();
        k.width = *pol;
        let e = encode_file(ast, &k, &mut rng0);
        ctx.eval(&Complete { x: e.bytes.clone(), ast: Some(ast.clone()), origin: "deterministic", enc_class: enc_class(&e) });
        // TLF padding 1..3 at every TLF position, one position at a time (small files only)
        if e.map.tlfs.len() <= 40 {
            for ti in 0..e.map.tlfs.len() {
                for extra in 1..=3 {
                    let mut k2 = k.clone();
                    k2.force_extra_at = Some((ti, extra));
                    let e2 = encode_file(ast, &k2, &mut rng0);
                    if e2.bytes != e.bytes {
                        ctx.eval(&Complete { x: e2.bytes.clone(), ast: Some(ast.clone()), origin: "tlf-padding-sweep", enc_class: enc_class(&e2) });
                    }
                }
            }
            // very long TLFs (hundreds of leading zero groups) at a few positions
            if i % 7 == 0 {
                for ti in (0..e.map.tlfs.len()).step_by(3) {
                    for extra in [12usize, 253, 254, 255, 256, 300] {
                        let mut k2 = k.clone();
                        k2.force_extra_at = Some((ti, extra));
                        let e2 = encode_file(ast, &k2, &mut rng0);
                        if e2.bytes != e.bytes {
                            ctx.eval(&Complete { x: e2.bytes.clone(), ast: Some(ast.clone()), origin: "long-tlf-sweep", enc_class: enc_class(&e2) });
                        }
                    }
                }
            }
            // the vendor time encoding at each time position, one at a time
            for ti in 0..6 {
                let mut k2 = k.clone();
                k2.force_alt_time_at = Some(ti);
                let e2 = encode_file(ast, &k2, &mut rng0);
                if e2.n_alt_time > 0 {
                    ctx.eval(&Complete { x: e2.bytes.clone(), ast: Some(ast.clone()), origin: "alt-time-sweep", enc_class: enc_class(&e2) });
                    ctx.bump("floor:time:alt");
                }
                if e2.n_std_time > 0 {
                    ctx.bump("floor:time:std");
                }
            }
        }
    }
    // valid lists with 2^16 - 1, 2^16 and 2^16 + 1 real entries (five-nibble list TLF, ~0.5 MB)
    for (i, n) in [65535usize, 65536, 65537].iter().enumerate() {
        if ctx.mine(i as u64 + 5) {
            let mut r = Rng::new(99 + *n as u64);
            let ast = smlgen::gen_tiny_list_file(&mut r, *n);
            let e = encode_file(&ast, &Knobs::canonical(), &mut rng0);
            ctx.eval(&Complete { x: e.bytes.clone(), ast: Some(ast), origin: "list-of-2^16-entries", enc_class: "canonical".into() });
        }
    }
    // files with thousands of messages
    for (i, n) in [4095usize, 4096, 4097, 10000].iter().enumerate() {
        if ctx.mine(i as u64 + 9) {
            let msgs = (0..*n)
                .map(|j| AMsg { transaction_id: vec![(j % 251) as u8, (j / 251) as u8], group_no: 0, abort_on_error: 0, body: ABody::Close(AClose { global_signature: None }) })
                .collect();
            let ast = AFile { messages: msgs };
            let e = encode_file(&ast, &Knobs::canonical(), &mut rng0);
            ctx.eval(&Complete { x: e.bytes.clone(), ast: Some(ast), origin: "thousands-of-messages", enc_class: "canonical".into() });
        }
    }
    // messages whose checksum starts with a zero byte, encoded in the one-byte form (found by search)
    if ctx.shard == 0 {
        let mut found = 0;
        'outer: for tid_len in 0..3usize {
            for g in 0..=255u8 {
                for a in [0u8, 1, 255] {
                    let mk = |last: bool| AMsg {
                        transaction_id: vec![0x31; tid_len],
                        group_no: g,
                        abort_on_error: a,
                        body: ABody::Close(AClose { global_signature: if last { None } else { Some(vec![1]) } }),
                    };
                    for shape in 0..2 {
                        let ast = if shape == 0 { AFile { messages: vec![mk(true)] } } else { AFile { messages: vec![mk(false), mk(true)] } };
                        let mut k = Knobs::canonical();
                        k.narrow_crc = true;
                        let e = encode_file(&ast, &k, &mut rng0);
                        if e.n_narrow_crc > 0 {
                            ctx.eval(&Complete { x: e.bytes.clone(), ast: Some(ast), origin: "one-byte-checksum", enc_class: "narrow-crc".into() });
                            ctx.bump("floor:one-byte-checksum");
                            found += 1;
                            if found >= 40 {
                                break 'outer;
                            }
                        }
                    }
                }
            }
        }
    }
    // random ASTs x random encoding knobs
    let n = ctx.count(60_000, 3_000_000);
    for i in 0..n {
        let ast = if i % 4 == 0 {
            let ne = ctx.rng.range(0, 20);
            smlgen::gen_typical(&mut ctx.rng, ne)
        } else {
            smlgen::gen_file(&mut ctx.rng, 5, if i % 97 == 0 { 300 } else { 20 })
        };
        let knobs = Knobs::random(&mut ctx.rng);
        let e = encode_file(&ast, &knobs, &mut ctx.rng);
        if e.n_alt_time > 0 {
            ctx.bump("floor:time:alt");
        }
        if e.n_std_time > 0 {
            ctx.bump("floor:time:std");
        }
        ctx.eval(&Complete { x: e.bytes.clone(), ast: Some(ast), origin: "random", enc_class: enc_class(&e) });
    }
    // real meter files: decode by the reference, re-encode through the reference encoder with random knobs
    for (i, p) in crate::corpus::payloads().iter().enumerate() {
        if !ctx.mine(i as u64) {
            continue;
        }
        if let Ok(ast) = ref_parse(p) {
            ctx.eval(&Complete { x: p.clone(), ast: Some(ast.clone()), origin: "real-meter", enc_class: String::new() });
            for _ in 0..3 {
                let knobs = Knobs::random(&mut ctx.rng);
                let e = encode_file(&ast, &knobs, &mut ctx.rng);
                ctx.eval(&Complete { x: e.bytes.clone(), ast: Some(ast.clone()), origin: "real-meter-reencoded", enc_class: enc_class(&e) });
            }
        } else {
            ctx.bump("real_meter_files_outside_reference_subset");
        }
    }
}

pub fn floors() -> Vec<String> {
    let mut v: Vec<String> = vec!["floor:one-byte-checksum".into(), "floor:body:open".into(), "floor:body:close".into(), "floor:body:getlist".into(), "floor:time:alt".into(), "floor:time:std".into()];
    for n in ["Bool", "Bytes", "I8", "I16", "I32", "I64", "U8", "U16", "U32", "U64", "List"] {
        v.push(format!("floor:value:{}", n));
    }
    for s in ["S8", "S16", "S32", "S64"] {
        v.push(format!("floor:status:{}", s));
    }
    for l in ["0", "1-14", "15", "16", "17-255", ">=256"] {
        v.push(format!("floor:listlen:{}", l));
    }
    v
}

pub const RULE: &str = "cases = (abstract file, valid wire encoding): deterministic sweeps (every value variant x every admissible integer width 1..8 x boundary values incl. sign boundaries, every status width, \
optional fields present alone / none / all, list lengths 0,1,2,14,15,16,17,255,256,300, 0..5 messages; for each the canonical encoding, 1..3 extra TLF bytes at every TLF position one at a time, the vendor time encoding at every time position) \
plus random ASTs under random encoding knobs (TLF padding, integer width within the width class, time encoding) and the real meter files re-encoded. Both parsers must return exactly the abstract file; \
the harness first checks its own encoder against its reference parser. Distinct/non-trivial = distinct tuples (body kind, optional-field mask, list-length class, encoding class) and (value variant, status variant, entry mask) observed in accepted files";
