//! C18 - ArrayBuf behaves as a capacity-bounded byte vector. Sequential reference model stepped in
//! lock-step and compared after every operation.

use crate::core::{Ctx, Fail, PropCase, Verdict};
use crate::fe::{dispatch_buf, BufKind, BuilderFor, CapVisitor, MENU};
use crate::hexu::{hex, unhex, Case};
use crate::refm::capvec::CappedVec;
use sml_rs::util::Buffer;

#[derive(Clone, Debug, PartialEq, Eq)]
pub enum BOp {
    Push(u8),
    Extend(Vec<u8>),
    Truncate(usize),
    Clear,
}

fn ops_text(ops: &[BOp]) -> String {
    let v: Vec<String> = ops
        .iter()
        .map(|o| match o {
            BOp::Push(b) => format!("p{:02x}", b),
            BOp::Extend(s) => format!("e{}", hex(s)),
            BOp::Truncate(k) => format!("t{}", k),
            BOp::Clear => "c".into(),
        })
        .collect();
    v.join(",")
}

fn ops_parse(t: &str) -> Result<Vec<BOp>, String> {
    let mut v = Vec::new();
    for tok in t.split(',').filter(|x| !x.is_empty()) {
        let (h, r) = tok.split_at(1);
        v.push(match h {
            "p" => BOp::Push(unhex(r)?.first().copied().ok_or("push")?),
            "e" => BOp::Extend(unhex(r)?),
            "t" => BOp::Truncate(r.parse().map_err(|e| format!("{}", e))?),
            "c" => BOp::Clear,
            _ => return Err(format!("bad op {}", tok)),
        });
    }
    Ok(v)
}

pub struct Hist {
    pub buf: BufKind,
    pub ops: Vec<BOp>,
}

struct RunHist<'a> {
    ops: &'a [BOp],
    cap: Option<usize>,
}

/// observations used for evidence
#[derive(Default)]
struct HistObs {
    oom_push: Vec<(usize, usize)>,
    oom_extend: Vec<(usize, usize)>,
    max_fill: usize,
    ops: usize,
    debug_like_slice: usize,
}

impl<'a> CapVisitor for RunHist<'a> {
    type Out = Result<HistObs, Fail>;
    fn visit<B: Buffer + BuilderFor + 'static>(self) -> Self::Out {
        let mut b: B = Default::default();
        let mut m = CappedVec::new(self.cap);
        let mut obs = HistObs::default();
        let same = |b: &B, m: &CappedVec, after: &str| -> Result<(), Fail> {
            if &b[..] != &m.v[..] || b.len() != m.v.len() {
                return Err(Fail::new(
                    "contents",
                    format!("after {}: contents {} (len {})", after, hex(&m.v), m.v.len()),
                    format!("contents {} (len {})", hex(&b[..]), b.len()),
                ));
            }
            Ok(())
        };
        same(&b, &m, "construction")?;
        for (i, op) in self.ops.iter().enumerate() {
            let before = m.v.clone();
            let desc;
            match op {
                BOp::Push(x) => {
                    desc = format!("op #{} push({:02x})", i, x);
                    let r = b.push(*x).is_ok();
                    let e = m.push(*x).is_ok();
                    if r != e {
                        return Err(Fail::new("result", format!("{} -> {}", desc, if e { "Ok" } else { "Err(OutOfMemory)" }), if r { "Ok" } else { "Err(OutOfMemory)" }));
                    }
                    if !r {
                        obs.oom_push.push((before.len(), self.cap.unwrap_or(usize::MAX)));
                    }
                }
                BOp::Extend(s) => {
                    desc = format!("op #{} extend_from_slice({})", i, hex(s));
                    let r = b.extend_from_slice(s).is_ok();
                    let e = m.extend_from_slice(s).is_ok();
                    if r != e {
                        return Err(Fail::new("result", format!("{} -> {}", desc, if e { "Ok" } else { "Err(OutOfMemory)" }), if r { "Ok" } else { "Err(OutOfMemory)" }));
                    }
                    if !r {
                        obs.oom_extend.push((before.len(), self.cap.unwrap_or(usize::MAX)));
                        // a failing operation leaves the contents unchanged
                        if &b[..] != &before[..] {
                            return Err(Fail::new("failed-op-changes-contents", format!("{} failed: contents stay {}", desc, hex(&before)), hex(&b[..])));
                        }
                    }
                }
                BOp::Truncate(k) => {
                    desc = format!("op #{} truncate({})", i, k);
                    b.truncate(*k);
                    m.truncate(*k);
                }
                BOp::Clear => {
                    desc = format!("op #{} clear()", i);
                    b.clear();
                    m.clear();
                }
            }
            same(&b, &m, &desc)?;
            obs.max_fill = obs.max_fill.max(m.v.len());
            obs.ops += 1;
            // equality and Debug depend only on the visible contents: compare with a freshly built buffer
            let failed_op = match op {
                BOp::Push(_) | BOp::Extend(_) => m.v == before && !matches!(op, BOp::Extend(s) if s.is_empty()),
                _ => false,
            };
            if i % 3 == 0 || i + 1 == self.ops.len() || failed_op {
                // collecting through iterators with exact, loose and unknown size hints
                // (upper bound of the hint exceeds the capacity although at most N bytes are yielded)
                let junk = self.cap.map(|c| (c + 1).min(300)).unwrap_or(3);
                let loose: B = m.v.iter().map(|b| (*b, true)).chain((0..junk).map(|_| (0u8, false))).filter(|x| x.1).map(|x| x.0).collect();
                let mut k = 0usize;
                let vv = &m.v;
                let unknown: B = std::iter::from_fn(|| {
                    k += 1;
                    vv.get(k - 1).copied()
                })
                .collect();
                if &loose[..] != &m.v[..] || &unknown[..] != &m.v[..] {
                    return Err(Fail::new("from_iter", format!("collect of {} bytes (loose / unknown size hint) yields exactly them: {}", m.v.len(), hex(&m.v)), format!("{} / {}", hex(&loose[..]), hex(&unknown[..]))));
                }
                // a source that is not fused: after its first None it would yield more bytes; collecting must stop at
                // the first None and must not consume anything behind it
                {
                    let polls = std::cell::Cell::new(0usize);
                    let n = m.v.len();
                    let nf: B = std::iter::from_fn(|| {
                        let p = polls.get();
                        polls.set(p + 1);
                        if p < n {
                            Some(vv[p])
                        } else if p == n {
                            None
                        } else {
                            Some(0xEE)
                        }
                    })
                    .collect();
                    if &nf[..] != &m.v[..] || polls.get() != n + 1 {
                        return Err(Fail::new(
                            "from_iter",
                            format!("collect stops at the source's first None: {} bytes, {} polls", n, n + 1),
                            format!("{} bytes ({}), {} polls", nf.len(), hex(&nf[..]), polls.get()),
                        ));
                    }
                }
                let fresh: B = m.v.iter().copied().collect();
                if &fresh[..] != &m.v[..] {
                    return Err(Fail::new("from_iter", format!("collect of {} bytes yields exactly them: {}", m.v.len(), hex(&m.v)), hex(&fresh[..])));
                }
                if !(b == fresh) || !(fresh == b) {
                    return Err(Fail::new(
                        "equality",
                        format!("after {}: equal to a freshly collected buffer with the same visible contents {}", desc, hex(&m.v)),
                        "buffers compare unequal (stale bytes / history visible)",
                    ));
                }
                // Debug output depends only on the visible contents: a buffer with another history but the same
                // contents prints the same (that it equals the slice's own format is recorded, not required)
                for (fmtname, a, e, sl) in [
                    ("{:?}", format!("{:?}", b), format!("{:?}", fresh), format!("{:?}", &m.v[..])),
                    ("{:x?}", format!("{:x?}", b), format!("{:x?}", fresh), format!("{:x?}", &m.v[..])),
                    ("{:#?}", format!("{:#?}", b), format!("{:#?}", fresh), format!("{:#?}", &m.v[..])),
                ] {
                    if a != e {
                        return Err(Fail::new("debug", format!("{} equals that of a freshly built buffer with the same contents: {}", fmtname, e), a));
                    }
                    if a == sl {
                        obs.debug_like_slice += 1;
                    }
                }
                // unequal contents must compare unequal
                let mut other = m.v.clone();
                if let Some(l) = other.last_mut() {
                    *l ^= 0x01;
                    let ob: B = other.iter().copied().collect();
                    if b == ob {
                        return Err(Fail::new("equality", "buffers with different last byte compare unequal", "equal"));
                    }
                }
                if !m.v.is_empty() {
                    // a twin with the same history, truncated by one: the hidden tail is identical
                    let mut twin: B = m.v.iter().copied().collect();
                    twin.truncate(m.v.len() - 1);
                    if b == twin || twin == b {
                        return Err(Fail::new("equality", "a buffer and its twin truncated by one byte compare unequal (both ways)", "equal"));
                    }
                    let shorter: B = m.v[..m.v.len() - 1].iter().copied().collect();
                    if b == shorter {
                        return Err(Fail::new("equality", "buffers of different length compare unequal", "equal"));
                    }
                }
            }
        }
        Ok(obs)
    }
}

impl PropCase for Hist {
    fn to_case(&self) -> Case {
        Case::new("bufhist").s("buf", &self.buf.name()).s("ops", &ops_text(&self.ops))
    }
    fn from_case(c: &Case) -> Result<Self, String> {
        Ok(Hist { buf: BufKind::parse(c.get("buf")?)?, ops: ops_parse(c.get("ops")?)? })
    }
    fn check(&self, ctx: &mut Ctx) -> Verdict {
        let cap = match self.buf {
            BufKind::Vec => None,
            BufKind::Arr(n) => Some(n),
        };
        let obs = dispatch_buf(self.buf, RunHist { ops: &self.ops, cap })?;
        let nclass = match cap {
            None => "vec".to_string(),
            Some(0) => "N=0".to_string(),
            Some(n) if n <= 4 => format!("N={}", n),
            Some(n) if n <= 64 => "N<=64".to_string(),
            _ => "N>64".to_string(),
        };
        for (fill, c) in &obs.oom_push {
            let fc = if *c == 0 { "N=0" } else if fill == c { "fill=N" } else { "?" };
            ctx.bump(&format!("floor:oom:push:{}", fc));
            ctx.class_s(&format!("{} push oom {}", nclass, fc));
        }
        for (fill, c) in &obs.oom_extend {
            let fc = if *c == 0 {
                "N=0"
            } else if fill == c {
                "fill=N"
            } else if fill + 1 == *c {
                "fill=N-1"
            } else if *fill == 0 {
                "empty"
            } else {
                "partial"
            };
            ctx.bump(&format!("floor:oom:extend:{}", fc));
            ctx.class_s(&format!("{} extend oom {}", nclass, fc));
        }
        let fl = match cap {
            Some(c) if obs.max_fill == c && c > 0 => "reached-full",
            _ if obs.max_fill == 0 => "stayed-empty",
            _ => "partial",
        };
        ctx.class_s(&format!("{} {} ops={}", nclass, fl, if obs.ops <= 7 { obs.ops.to_string() } else { "8+".into() }));
        ctx.add("operations_compared", obs.ops as u64);
        ctx.add("debug_outputs_equal_to_slice_format", obs.debug_like_slice as u64);
        if ctx.want_sample(&nclass) {
            let t = ops_text(&self.ops);
            ctx.sample(&nclass, || format!("buf={} ops={} -> model and buffer agree after every op", self.buf.name(), if t.len() > 200 { format!("{}..", &t[..200]) } else { t }));
        }
        Ok(())
    }
}

fn alphabet(n: usize) -> Vec<BOp> {
    vec![
        BOp::Push(0xa1),
        BOp::Push(0xb2),
        BOp::Extend(vec![]),
        BOp::Extend(vec![0xa1]),
        BOp::Extend(vec![0xa1, 0xb2]),
        BOp::Extend(vec![0xa1, 0xb2, 0xc3, 0xd4, 0xe5]),
        BOp::Truncate(0),
        BOp::Truncate(1),
        BOp::Truncate(n),
        BOp::Truncate(n + 1),
        BOp::Clear,
    ]
}

pub fn run(ctx: &mut Ctx) {
    // exhaustive small histories: N in 0..=4, 11-letter alphabet, length <= 5 (quick) / 7 (thorough)
    let maxlen: u32 = match (ctx.quick(), ctx.profile.as_str()) {
        (true, "chk") => 5,
        (true, _) => 4,
        (false, "chk") => 7,
        (false, _) => 6,
    };
    let mut total = 0u64;
    for n in 0..=4usize {
        let al = alphabet(n);
        let k = al.len() as u64;
        let count: u64 = (0..=maxlen).map(|l| k.pow(l)).sum();
        for idx in 0..count {
            if !ctx.mine(idx) {
                continue;
            }
            // decode idx into a history (shortest first)
            let mut i = idx;
            let mut len = 0u32;
            loop {
                let c = k.pow(len);
                if i < c {
                    break;
                }
                i -= c;
                len += 1;
            }
            let mut ops = Vec::with_capacity(len as usize);
            for _ in 0..len {
                ops.push(al[(i % k) as usize].clone());
                i /= k;
            }
            ctx.eval(&Hist { buf: BufKind::Arr(n), ops });
            total += 1;
        }
    }
    ctx.exhaustive_space(&format!("all operation histories of length <= {} over an 11-letter alphabet for N in 0..=4", maxlen), total);
    // random histories on every menu capacity and on Vec
    let n = ctx.count(30_000, 1_000_000);
    for i in 0..n {
        let buf = if i % 10 == 0 { BufKind::Vec } else { BufKind::Arr(MENU[i % MENU.len()]) };
        let cap = match buf {
            BufKind::Arr(c) => c,
            _ => 64,
        };
        let nops = if i % 200 == 0 { ctx.rng.range(1000, 10_000) } else { ctx.rng.range(1, 100) };
        let mut ops = Vec::with_capacity(nops);
        for _ in 0..nops {
            ops.push(match ctx.rng.below(10) {
                0..=3 => BOp::Push(ctx.rng.byte()),
                4..=6 => {
                    let l = match ctx.rng.below(4) {
                        0 => ctx.rng.range(0, 3),
                        1 => ctx.rng.range(0, (2 * cap).min(300)),
                        2 => cap.min(300),
                        _ => ctx.rng.range(0, cap.min(300) + 1),
                    };
                    BOp::Extend(ctx.rng.bytes(l))
                }
                7 => BOp::Truncate(ctx.rng.range(0, cap + 2)),
                8 => BOp::Truncate(*ctx.rng.pick(&[0usize, 1, 255, 256, 257, 65535, 65536, 65537, 65539, 1 << 24, (1 << 32) + 1, usize::MAX - 1, usize::MAX])),
                _ => BOp::Clear,
            });
        }
        ctx.eval(&Hist { buf, ops });
    }
    // fill levels around 2^16 on the largest capacities
    for (i, &cap) in [65535usize, 65536, 70000].iter().enumerate() {
        if !ctx.mine(i as u64 + 3) {
            continue;
        }
        let chunk = |n: usize, salt: u8| -> Vec<u8> { (0..n).map(|j| (j as u8).wrapping_mul(3).wrapping_add(salt)).collect() };
        let ops = vec![
            BOp::Extend(chunk(40000, 1)),
            BOp::Extend(chunk(25000, 2)),
            BOp::Extend(chunk(534, 3)),
            BOp::Push(0x11),
            BOp::Push(0x12),
            BOp::Push(0x13),
            BOp::Extend(chunk(4000, 4)),
            BOp::Extend(chunk(465, 5)),
            BOp::Push(0x14),
            BOp::Truncate(65537),
            BOp::Truncate(65536),
            BOp::Push(0x15),
            BOp::Truncate(65535),
            BOp::Push(0x16),
            BOp::Push(0x17),
            BOp::Clear,
            BOp::Extend(chunk(cap, 6)),
            BOp::Push(0x18),
        ];
        ctx.eval(&Hist { buf: BufKind::Arr(cap), ops });
        ctx.bump("floor:fill-beyond-2^16");
    }
    // failing extends with long slices (several hundred bytes) at every room size around 256 / 512
    for (i, &cap) in MENU.iter().enumerate() {
        if cap < 257 || cap > 8193 || !ctx.mine(i as u64 + 1) {
            continue;
        }
        for room in [1usize, 255, 256, 257, 299, 511, 512, 513] {
            if room >= cap {
                continue;
            }
            let pre: Vec<u8> = (0..cap - room).map(|j| (j as u8) | 0x80).collect();
            let big: Vec<u8> = (0..room + 1 + (room % 7)).map(|j| (j as u8) & 0x7f).collect();
            let ops = vec![BOp::Extend(pre), BOp::Extend(big.clone()), BOp::Truncate(1 << 20), BOp::Extend(big[..room].to_vec()), BOp::Push(1)];
            ctx.eval(&Hist { buf: BufKind::Arr(cap), ops });
        }
    }
    // stale-byte test: fill, truncate, compare (part of every history through the fresh-buffer comparison)
    for (i, &cap) in MENU.iter().enumerate() {
        if !ctx.mine(i as u64) || cap > 8192 {
            continue;
        }
        let fill: Vec<u8> = (0..cap).map(|j| (j as u8) | 1).collect();
        let ops = vec![BOp::Extend(fill.clone()), BOp::Truncate(cap / 2), BOp::Push(0), BOp::Truncate(1), BOp::Clear, BOp::Extend(fill), BOp::Push(9)];
        ctx.eval(&Hist { buf: BufKind::Arr(cap), ops });
        ctx.bump("floor:stale-byte-histories");
    }
}

pub const FLOORS: &[&str] = &[
    "floor:oom:push:N=0",
    "floor:oom:push:fill=N",
    "floor:oom:extend:N=0",
    "floor:oom:extend:fill=N",
    "floor:oom:extend:fill=N-1",
    "floor:stale-byte-histories",
    "floor:fill-beyond-2^16",
];

pub const RULE: &str = "cases = (capacity, operation history): exhaustively all histories up to the stated length over {push(a), push(b), extend(empty), extend(a), extend(ab), extend(abcde), truncate(0), truncate(1), truncate(N), truncate(N+1), clear} for N in 0..=4; \
random histories of 1..100 (0.5 %: 1000..10000) operations with slices of length 0..2N on every menu capacity and on Vec<u8> (model with unbounded capacity); fill / truncate / refill histories for stale bytes. \
After EVERY operation: result (Ok / OutOfMemory), Deref contents and len() against the model; a failed operation must not change the contents; every third operation: collect() of the visible bytes, == / != against freshly built buffers, and {:?} / {:x?} / {:#?} against the model slice. \
Distinct/non-trivial = distinct (capacity class, fill class reached, history length class) and (capacity class, failing operation, fill level at failure) tuples";
