//! C04 - parser soundness. Independent reference parser as accept/reject + content oracle on corrupted
//! inputs, with and without the message checksums recomputed after the corruption.

use super::pin::{self, PIn};
use crate::conv::{reassemble, refkind_matches, run_complete, run_streaming};
use crate::core::{Ctx, Fail, PropCase, Verdict};
use crate::hexu::{hex_short, Case};
use crate::refm::sml::ref_parse;

pub struct SoundP {
    pub x: Vec<u8>,
    pub family: &'static str,
    pub crc_fixed: bool,
    pub what: String,
}

impl SoundP {
    pub fn of(p: PIn) -> SoundP {
        SoundP {
            x: p.bytes,
            family: p.family,
            crc_fixed: p.crc_fixed,
            what: p.what,
        }
    }
}

impl PropCase for SoundP {
    fn to_case(&self) -> Case {
        Case::new("soundp").h("x", &self.x).s("family", self.family).n("fixed", self.crc_fixed as usize)
    }
    fn from_case(c: &Case) -> Result<Self, String> {
        Ok(SoundP {
            x: c.bytes("x")?,
            family: "replay",
            crc_fixed: c.num_or("fixed", 0) != 0,
            what: String::new(),
        })
    }
    fn check(&self, ctx: &mut Ctx) -> Verdict {
        let x = &self.x;
        let r = ref_parse(x);
        let c = run_complete(x);
        let st = run_streaming(x, 1);
        let fix = if self.crc_fixed { "crc-fixed" } else { "crc-stale" };
        match (&r, &c) {
            (Ok(want), Ok(got)) => {
                if want != got {
                    let (e, o) = super::c03::diff_hint(want, got);
                    return Err(Fail::new("complete-content", format!("what the grammar extracts: {}", e), o));
                }
            }
            (Err(e), Ok(got)) => {
                return Err(Fail::new(
                    "complete-accepts-malformed",
                    format!("an error (the reference reading of the grammar rejects the input: {:?}) [{} {}]", e, self.what, fix),
                    format!("Ok(file with {} messages) for {}", got.messages.len(), hex_short(x)),
                ));
            }
            (Ok(want), Err(k)) => {
                return Err(Fail::new(
                    "complete-rejects-wellformed",
                    format!("Ok(file with {} messages) - well-formed by the reference reading [{}]", want.messages.len(), self.what),
                    format!("Err({}) for {}", k.name(), hex_short(x)),
                ));
            }
            (Err(e), Err(k)) => {
                if refkind_matches(e, k) {
                    ctx.bump("error_kind_agrees_with_reference");
                } else {
                    ctx.bump("error_kind_differs_from_reference(not a verdict)");
                }
            }
        }
        // streaming parser: data only for well-formed input, and then the same content
        match (&r, st.first_err) {
            (Ok(want), None) => match reassemble(&st.events, true) {
                Ok(got) => {
                    if *want != got {
                        let (e, o) = super::c03::diff_hint(want, &got);
                        return Err(Fail::new("streaming-content", format!("what the grammar extracts: {}", e), o));
                    }
                }
                Err(e) => return Err(Fail::new("streaming-protocol", "well-formed event sequence", e)),
            },
            (Err(e), None) => {
                return Err(Fail::new(
                    "streaming-accepts-malformed",
                    format!("an error event (reference: {:?}) [{} {}]", e, self.what, fix),
                    format!("{} events and a clean end for {}", st.events.len(), hex_short(x)),
                ));
            }
            (Ok(_), Some(k)) => {
                return Err(Fail::new(
                    "streaming-rejects-wellformed",
                    format!("no error - well-formed by the reference reading [{}]", self.what),
                    format!("Err({}) for {}", k.name(), hex_short(x)),
                ));
            }
            (Err(_), Some(_)) => {}
        }
        // observed classes
        let rc = match &r {
            Ok(_) => "accept".to_string(),
            Err(e) => format!("reject:{}", e.class()),
        };
        ctx.class_s(&format!("{} {} {}", self.family, fix, rc));
        if self.crc_fixed || self.family == "variant" || self.family.starts_with("arity") {
            if let Err(e) = &r {
                ctx.bump(&format!("floor:behind-valid-crc:{}", e.class()));
            }
        }
        if r.is_ok() && !matches!(self.family, "valid" | "real") {
            ctx.bump("floor:benign-corruption-accepted-by-all");
        }
        if let Err(e) = &r {
            ctx.bump(&format!("ref-reject:{}", e.class()));
        }
        if ctx.want_sample(&rc) {
            ctx.sample(&rc, || format!("[{} {} {}] {} -> reference {}, complete {:?}, streaming err {:?}", self.family, self.what, fix, hex_short(x), rc, c.as_ref().map(|f| f.messages.len()).map_err(|e| e.name()), st.first_err.map(|e| e.name())));
        }
        Ok(())
    }
}

pub fn run(ctx: &mut Ctx) {
    // exhaustive per offset on a few small files
    let nfiles = if ctx.quick() { 3 } else { 60 };
    for f in 0..nfiles {
        let mut r = crate::rng::Rng::new(1000 + f as u64 + ctx.seed * 7919);
        let e = if f == 0 { pin::small_fixed_file(&mut r) } else { pin::gen_encoded(&mut r, true) };
        let all = pin::exhaustive_for(&e, &mut r);
        let mut n = 0;
        for (i, p) in all.into_iter().enumerate() {
            if ctx.mine(i as u64) {
                ctx.eval(&SoundP::of(p));
                n += 1;
            }
        }
        ctx.exhaustive_space("per-offset corruptions (3 flips, delete, insert, truncate; every TLF substitution; stale+fixed CRC) of small files", n);
    }
    let n = ctx.count(400_000, 20_000_000);
    for _ in 0..n {
        let p = pin::random_input(ctx);
        ctx.eval(&SoundP::of(p));
    }
}

pub const FLOORS: &[&str] = &[
    "floor:behind-valid-crc:mismatch",
    "floor:behind-valid-crc:msgend",
    "floor:behind-valid-crc:variant",
    "floor:behind-valid-crc:tlf",
    "floor:behind-valid-crc:eof",
    "ref-reject:crc",
    "floor:benign-corruption-accepted-by-all",
];

pub const RULE: &str = "cases = byte strings: every single-byte flip (3 masks) / deletion / insertion / truncation at every offset and every TLF substitution (length +-1, other type codes, continuation bit, declared lengths 2^8..2^44) at every TLF position \
of small valid files, each with stale and with recomputed message checksums; named structural faults behind a valid checksum (arity +-1, unknown body / choice tags, bad end marker, checksum field of other width or type); \
double corruptions, splices of two files, extensions, random bytes, real meter files with a flipped bit. Oracle: an independent recursive-descent reference parser written from the grammar; accept <=> accept and equal content for both parsers. \
Distinct/non-trivial = distinct (corruption family, stale/fixed checksum, reference outcome class) tuples";
