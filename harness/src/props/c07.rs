//! C07 - the encoders emit exactly the Transport v1 wire format and agree with each other.
//! Byte-for-byte comparison with the independent spec encoder; capacity sweep for out-of-memory.

use crate::core::{Ctx, PropCase, Verdict};
use crate::ensure;
use crate::fe::*;
use crate::gen::payload::{self, SIGMA};
use crate::hexu::{hex_short, Case};
use crate::refm::transport::ref_encode;

pub struct Enc {
    pub p: Vec<u8>,
    /// sweep every menu capacity (otherwise only those around the frame length)
    pub full_sweep: bool,
}

impl PropCase for Enc {
    fn to_case(&self) -> Case {
        Case::new("enc").h("p", &self.p).n("sweep", self.full_sweep as usize)
    }
    fn from_case(c: &Case) -> Result<Self, String> {
        Ok(Enc {
            p: c.bytes("p")?,
            full_sweep: c.num_or("sweep", 1) != 0,
        })
    }
    fn check(&self, ctx: &mut Ctx) -> Verdict {
        let p = &self.p;
        let want = ref_encode(p);
        let want_s = hex_short(&want);
        // growable buffer, both item kinds
        for by_ref in [false, true] {
            let got = run_encode(BufKind::Vec, p, by_ref);
            ensure!(
                got.as_ref() == Ok(&want),
                "encode<Vec>",
                format!("Ok({})", want_s),
                match &got {
                    Ok(g) => format!("Ok({})", hex_short(g)),
                    Err(()) => "Err(OutOfMemory)".into(),
                }
            );
        }
        // iterator encoder: by value, by reference, over a source that is not fused, over a source with a loose size hint
        for mode in 0..4u8 {
            let es = run_encode_streaming(p, mode, if mode == 0 { 400 } else { 16 });
            ensure!(
                !es.hit_bound && es.bytes == want,
                &format!("encode_streaming/mode{}", mode),
                want_s.clone(),
                format!("{}{}", hex_short(&es.bytes), if es.hit_bound { " (did not end)" } else { "" })
            );
            ensure!(
                es.late.is_empty(),
                &format!("encode_streaming-ends/mode{}", mode),
                "None on each of the 16..400 further polls after the last byte",
                format!("yielded {:02x?} after the end", es.late)
            );
        }
        // the Iterator adapters that iterate internally must produce the same frame
        if p.len() <= 600 {
            let ad = encode_streaming_adapters(p);
            let wsum: u64 = want.iter().map(|b| *b as u64).sum();
            ensure!(
                ad.folded == want && ad.for_each == want && ad.collected_ext == want && ad.count == want.len() && ad.last == want.last().copied() && ad.sum == wsum,
                "encode_streaming/iterator-adapters",
                format!("fold / for_each / extend give {} ; count {} ; last {:?}", want_s, want.len(), want.last()),
                format!("fold {} ; for_each {} ; extend {} ; count {} ; last {:?} ; sum {} (want {})", hex_short(&ad.folded), hex_short(&ad.for_each), hex_short(&ad.collected_ext), ad.count, ad.last, ad.sum, wsum)
            );
        }
        // Iterator contract of the iterator encoder: size_hint() brackets the real frame length
        {
            let (lo, hi) = encoder_size_hint(p);
            ensure!(
                lo <= want.len() && hi.map(|h| h >= want.len()).unwrap_or(true),
                "encode_streaming/size_hint",
                format!("lower <= {} <= upper", want.len()),
                format!("({}, {:?})", lo, hi)
            );
        }
        // capacity sweep: Ok <=> N >= |frame|, identical bytes when Ok
        let l = want.len();
        let mut caps: Vec<usize> = Vec::new();
        if self.full_sweep {
            caps.extend(MENU.iter().copied().filter(|c| *c <= l + 70 || *c <= 64));
        } else {
            let below = MENU.iter().copied().filter(|c| *c < l).last();
            let at = MENU.iter().copied().find(|c| *c >= l);
            caps.extend(below);
            caps.extend(at);
            caps.extend([0usize, 8, 15, 16]);
            if let Some(a) = at {
                if let Some(n) = MENU.iter().copied().find(|c| *c > a) {
                    caps.push(n);
                }
            }
        }
        // growable buffer fed by iterators whose size hint over-estimates / is unknown
        for mode in [2u8, 3] {
            let got = run_encode_mode(BufKind::Vec, p, mode);
            ensure!(
                got.as_ref() == Ok(&want),
                &format!("encode<Vec>/itermode{}", mode),
                format!("Ok({})", want_s),
                match &got {
                    Ok(g) => format!("Ok({})", hex_short(g)),
                    Err(()) => "Err(OutOfMemory)".into(),
                }
            );
        }
        for cap in caps {
            let got = run_encode_mode(BufKind::Arr(cap), p, (cap % 4) as u8);
            if cap >= l {
                ensure!(
                    got.as_ref() == Ok(&want),
                    "encode<ArrayBuf>",
                    format!("capacity {} >= frame length {}: Ok({})", cap, l, want_s),
                    match &got {
                        Ok(g) => format!("Ok({})", hex_short(g)),
                        Err(()) => "Err(OutOfMemory)".into(),
                    }
                );
                if cap == l {
                    ctx.bump("floor:ok-at-exact-capacity");
                    ctx.class_s(&format!("exact-fit frame length {}", l));
                }
            } else {
                ensure!(
                    got.is_err(),
                    "encode<ArrayBuf>-oom",
                    format!("capacity {} < frame length {}: Err(OutOfMemory)", cap, l),
                    format!("Ok({})", hex_short(got.as_ref().unwrap()))
                );
                if cap + 1 == l {
                    ctx.bump("floor:oom-at-capacity-minus-one");
                    ctx.class_s(&format!("one-short frame length {}", l));
                }
            }
            ctx.bump("capacity_probes");
        }
        let run = payload::max_run_1b(p);
        let key = crate::rng::mix(&[run.min(20) as u64, (p.len() % 4) as u64, payload::size_class(p.len()).len() as u64]);
        ctx.class(key, || {
            format!("max1b-run={} len%4={} size{}", run.min(20), p.len() % 4, payload::size_class(p.len()))
        });
        if p.len() >= 256 {
            ctx.bump("floor:payload>=256");
        }
        ctx.sample(payload::size_class(p.len()), || format!("payload={} frame={}", hex_short(p), want_s));
        Ok(())
    }
}

pub fn run(ctx: &mut Ctx) {
    // exhaustive small payloads
    let maxlen: u32 = match (ctx.quick(), ctx.profile.as_str()) {
        (true, "chk") => 6,
        (true, _) => 4,
        (false, "chk") => 8,
        (false, _) => 6,
    };
    let total = payload::count_upto(5, maxlen);
    let mut n = 0;
    for i in 0..total {
        if !ctx.mine(i) {
            continue;
        }
        let p = payload::nth_string(&SIGMA, i);
        let full_sweep = p.len() <= 4;
        ctx.eval(&Enc { p, full_sweep });
        n += 1;
    }
    ctx.exhaustive_space(&format!("payloads over {{1b,00,1a,01,7f}} of length <= {}", maxlen), n);
    // 0x1b runs of every length 0..20 at every offset mod 4, in payloads of every length class
    let mut idx = 0u64;
    for run in 0..=20usize {
        for off in 0..8usize {
            for tail in 0..5usize {
                idx += 1;
                if !ctx.mine(idx) {
                    continue;
                }
                let mut p: Vec<u8> = (0..off).map(|i| 0x41 + i as u8).collect();
                p.extend(std::iter::repeat(0x1b).take(run));
                p.extend((0..tail).map(|i| 0x61 + i as u8));
                ctx.eval(&Enc { p, full_sweep: true });
            }
        }
    }
    // lengths around the 8-bit wrap of the pad counter and large payloads
    let mut lens: Vec<usize> = Vec::new();
    lens.extend(250..=260);
    lens.extend(508..=516);
    lens.extend(1020..=1030);
    lens.extend([4080usize, 8176, 8191, 8192, 65519, 65520, 65536, 65540, 69980]);
    // payload lengths whose frame length is a menu capacity or one more (exact-fit boundary)
    for &c in MENU.iter().filter(|c| **c >= 16 && **c % 4 == 0) {
        lens.push(c - 16);
        lens.push((c - 16).saturating_sub(1));
        lens.push(c - 15);
    }
    for (i, &len) in lens.iter().enumerate() {
        if !ctx.mine(i as u64) {
            continue;
        }
        for variant in 0..3 {
            let p = match variant {
                0 => ctx.rng.bytes(len),
                1 => ctx.rng.biased_bytes(len, &SIGMA),
                _ => vec![0x1b; len],
            };
            ctx.eval(&Enc { p, full_sweep: false });
        }
    }
    let cnt = ctx.count(120_000, 4_000_000);
    for _ in 0..cnt {
        let p = payload::any_payload(&mut ctx.rng);
        let full_sweep = p.len() <= 44 && ctx.rng.chance(1, 4);
        ctx.eval(&Enc { p, full_sweep });
    }
    for (i, p) in crate::corpus::payloads().iter().enumerate() {
        if ctx.mine(i as u64) {
            ctx.eval(&Enc { p: p.clone(), full_sweep: false });
        }
    }
}

pub const FLOORS: &[&str] = &["floor:ok-at-exact-capacity", "floor:oom-at-capacity-minus-one", "floor:payload>=256"];

pub const RULE: &str = "cases = payloads (exhaustive over {1b,00,1a,01,7f} up to the stated length; 0x1b runs of every length 0..20 at every offset 0..7 with tails 0..4; \
lengths around 256/512/1024 and up to 70 kB; lengths that make the frame fit a menu capacity exactly / miss it by one; random structured payloads; real meter payloads). \
Each is encoded by encode::<Vec> (by-value and by-reference items), by encode_streaming (by value, by reference, over a non-fused source; polled 16 times past its end) and by \
encode::<ArrayBuf<N>> for the capacities around the frame length (all menu capacities for small frames) and compared byte for byte with the harness' own spec encoder. \
Distinct/non-trivial = distinct (longest 1b run capped 20, length mod 4, size class) tuples plus the distinct frame lengths for which exact-fit success and one-short OOM were observed";
