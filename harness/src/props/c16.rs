//! C16 - buffer need equals payload length; overflow is an error, never truncation.
//! Capacity-sweep expected-trace monitor.

use crate::core::{Ctx, PropCase, Verdict};
use crate::ensure;
use crate::fe::*;
use crate::gen::payload;
use crate::hexu::{hex_short, Case};
use crate::refm::transport::{ends_with_canonical_frame, ref_encode};

pub struct Cap {
    pub m: Vec<u8>,
    /// capacity under test (menu value)
    pub n: usize,
    /// next frame's payload (|q| <= n)
    pub q: Vec<u8>,
    /// use the default reader buffer (n must be 8192)
    pub default_buf: bool,
}

fn tail_class(m: &[u8]) -> String {
    let z = payload::trailing_run(m, 0);
    let o = payload::trailing_run(m, 0x1b);
    let lit = m.len() >= 4 && m[m.len() - 4..] == [0x1b; 4];
    format!("zeros{}|ones{}|lit{}", z.min(5), o.min(5), lit as u8)
}

impl PropCase for Cap {
    fn to_case(&self) -> Case {
        Case::new("cap").h("m", &self.m).n("n", self.n).h("q", &self.q).n("default", self.default_buf as usize)
    }
    fn from_case(c: &Case) -> Result<Self, String> {
        Ok(Cap {
            m: c.bytes("m")?,
            n: c.num("n")?,
            q: c.bytes("q")?,
            default_buf: c.num_or("default", 0) != 0,
        })
    }
    fn check(&self, ctx: &mut Ctx) -> Verdict {
        let (m, n, q) = (&self.m, self.n, &self.q);
        let l = m.len();
        let fm = ref_encode(m);
        let fq = ref_encode(q);
        let mut s = fm.clone();
        s.extend_from_slice(&fq);
        let buf = BufKind::Arr(n);
        let rel = if n == 0 && l > 0 {
            "N=0"
        } else if n >= l {
            if n == l {
                "N=L"
            } else {
                "N>L"
            }
        } else if n + 4 >= l {
            "L-4..L-1"
        } else {
            "<L-4"
        };
        // the three observation points of the property
        let mut logs: Vec<(&str, Log)> = Vec::new();
        if !self.default_buf {
            logs.push(("F1", {
                let mut d = new_decoder(buf);
                let mut lg = Log::new();
                feed(d.as_mut(), &s, 0, &mut lg);
                lg
            }));
            logs.push(("F3", run_f3(buf, &s, 0).log));
            logs.push(("F1-from_buf", {
                let mut d = new_decoder_from_buf(buf);
                let mut lg = Log::new();
                feed(d.as_mut(), &s, 0, &mut lg);
                lg
            }));
        }
        {
            let env = ReaderEnv::from_bytes(&s);
            let rb = if self.default_buf { RBuf::Default } else { RBuf::Kind(buf) };
            let mut rd = new_reader(&env, Src::Io, rb);
            let mut lg = Log::new();
            for _ in 0..s.len() + 4 {
                let out = rd.r.call(Api::Next, Target::Bytes);
                let pos = (rd.pulled)().unwrap_or(0).saturating_sub(1);
                match out {
                    ROut::None => break,
                    ROut::Bytes(b) => lg.push((pos, TEv::Ok(b))),
                    ROut::DecodeErr(e) => lg.push((pos, TEv::Err(e))),
                    ROut::IoErr(IoKind::Eof, k) => lg.push((s.len(), TEv::Err(DErr::Discarded(k)))),
                    other => {
                        return Err(crate::core::Fail::new("reader", "decode results only", other.short()));
                    }
                }
            }
            logs.push((if self.default_buf { "R/default-buffer" } else { "R/static-buffer" }, lg));
        }
        // the same through the builder's other constructors and target types (explicit buffers only):
        // embedded-hal source (no end of input: stop at the first would-block after all bytes were pulled) and the
        // File target, where a decode error must surface unchanged through the parse-error type
        if !self.default_buf {
            let env = ReaderEnv::from_bytes(&s);
            let mut rd = new_reader(&env, Src::Eh, RBuf::Kind(buf));
            let mut lg = Log::new();
            for _ in 0..s.len() + 4 {
                let out = rd.r.call(Api::Read, Target::Bytes);
                let pulled = (rd.pulled)().unwrap_or(0);
                match out {
                    ROut::Bytes(b) => lg.push((pulled.saturating_sub(1), TEv::Ok(b))),
                    ROut::DecodeErr(e) => lg.push((pulled.saturating_sub(1), TEv::Err(e))),
                    ROut::IoErr(IoKind::WouldBlock, 0) if pulled >= s.len() => break,
                    other => return Err(crate::core::Fail::new("reader-eh", "decode results, then would-block on the idle line", other.short())),
                }
            }
            logs.push(("R/eh-static-buffer", lg));
            if n < l {
                let mut rd = new_reader(&env, Src::Slice, RBuf::Kind(buf));
                let mut saw_oom = false;
                for _ in 0..s.len() + 4 {
                    match rd.r.call(Api::Next, Target::File) {
                        ROut::None => break,
                        ROut::DecodeErr(DErr::Oom) => saw_oom = true,
                        _ => {}
                    }
                }
                ensure!(
                    saw_oom,
                    "oom-through-File-target",
                    format!("capacity {} < payload length {}: next::<File>() reports DecodeErr(OutOfMemory)", n, l),
                    "no DecodeErr(OutOfMemory) surfaced through the File target"
                );
            }
        }
        for (fe, lg) in &logs {
            if n >= l {
                // capacity suffices: exact expected trace for both frames
                let want: Log = vec![(fm.len() - 1, TEv::Ok(m.clone())), (s.len() - 1, TEv::Ok(q.clone()))];
                ensure!(
                    *lg == want,
                    &format!("fits/{}", fe),
                    format!("capacity {} >= payload length {}: {}", n, l, log_str(&want)),
                    log_str(lg)
                );
            } else {
                // (a) out-of-memory is reported for the first frame
                let oom = lg.iter().any(|(p, e)| *p < fm.len() && *e == TEv::Err(DErr::Oom));
                ensure!(
                    oom,
                    &format!("oom-reported/{}", fe),
                    format!("capacity {} < payload length {}: Err(OutOfMemory) while the first frame ({} bytes) is consumed", n, l, fm.len()),
                    log_str(lg)
                );
                // (b) never a shortened or altered payload: any Ok inside the first frame must be justified by
                //     the suffix oracle (a start look-alike behind the overflow point is the protocol's doing)
                for (p, e) in lg.iter() {
                    if let TEv::Ok(x) = e {
                        if *p < fm.len() {
                            ensure!(
                                ends_with_canonical_frame(&s[..=*p], x),
                                &format!("no-truncated-payload/{}", fe),
                                "no payload is delivered from the oversized frame".to_string(),
                                format!("Ok({}) at position {} of the {}-byte frame of a {}-byte payload, capacity {}", hex_short(x), p, fm.len(), l, n)
                            );
                            ctx.bump("justified_ok_inside_rejected_frame");
                        }
                    }
                }
                // (c) ready for the next frame
                ensure!(
                    lg.last() == Some(&(s.len() - 1, TEv::Ok(q.clone()))),
                    &format!("next-frame/{}", fe),
                    format!("the log ends with Ok({}) at the last byte {}", hex_short(q), s.len() - 1),
                    log_str(lg)
                );
            }
        }
        let tc = tail_class(m);
        ctx.class_s(&format!("{} {} {}", rel, tc, if l <= 64 { "dense" } else { "large" }));
        ctx.bump(&format!("floor:{}", rel));
        if self.default_buf {
            ctx.bump(&format!("floor:default-buffer:{}", rel));
        }
        if ctx.want_sample(rel) {
            ctx.sample(rel, || format!("payload={} (L={}) capacity={} next={} -> {}", hex_short(m), l, n, hex_short(q), log_str(&logs[0].1)));
        }
        Ok(())
    }
}

/// payload of exactly `len` bytes with a structured tail
fn shaped(ctx: &mut Ctx, len: usize) -> Vec<u8> {
    let rng = &mut ctx.rng;
    let ones = rng.range(0, 13);
    let zeros = rng.range(0, 7);
    let lit = rng.chance(1, 4);
    let mut tail: Vec<u8> = Vec::new();
    if lit {
        tail.extend_from_slice(&[0x1b; 4]);
    }
    if rng.chance(1, 2) {
        tail.extend(std::iter::repeat(0x1b).take(ones));
        tail.extend(std::iter::repeat(0).take(zeros));
    } else {
        tail.extend(std::iter::repeat(0).take(zeros));
        tail.extend(std::iter::repeat(0x1b).take(ones));
    }
    if tail.len() > len {
        tail.drain(..tail.len() - len);
    }
    let mut p = if rng.chance(1, 2) {
        rng.biased_bytes(len - tail.len(), &payload::SIGMA)
    } else {
        rng.bytes(len - tail.len())
    };
    p.extend_from_slice(&tail);
    p
}

pub fn run(ctx: &mut Ctx) {
    // dense range: every L in 0..=63, every N in 0..=L+1
    let reps = ctx.count(16 * 60, 16 * 30000) / 16;
    let mut idx = 0u64;
    for l in 0..=63usize {
        for _r in 0..reps.max(1) {
            idx += 1;
            if !ctx.mine(idx) {
                continue;
            }
            let m = shaped(ctx, l);
            for n in 0..=l + 1 {
                let qlen = ctx.rng.range(0, n.min(6));
                let q: Vec<u8> = (0..qlen).map(|i| 0x31 + i as u8).collect();
                ctx.eval(&Cap { m: m.clone(), n, q, default_buf: false });
            }
        }
    }
    // larger menu lengths: N in {0, largest menu value below L, L, next menu value}
    let big: &[usize] = &[100, 127, 128, 255, 256, 257, 1000, 1024, 4096, 8191, 8192];
    let reps = if ctx.quick() { 2 } else { 40 };
    for (i, &l) in big.iter().enumerate() {
        for r in 0..reps {
            if !ctx.mine((i * reps + r) as u64) {
                continue;
            }
            let m = shaped(ctx, l);
            let below = MENU.iter().copied().filter(|c| *c < l).last().unwrap();
            let next = MENU.iter().copied().find(|c| *c > l).unwrap();
            for n in [0, below, l, next] {
                let q: Vec<u8> = (0..n.min(5)).map(|i| 0x31 + i as u8).collect();
                ctx.eval(&Cap { m: m.clone(), n, q, default_buf: false });
            }
        }
    }
    // default 8 KiB reader buffer: L = 8192 succeeds, L = 8193 is out-of-memory, then the next frame
    let reps = if ctx.quick() { 1 } else { 10 };
    for r in 0..reps {
        for (i, l) in [8192usize, 8193, 8191, 9000].iter().enumerate() {
            if !ctx.mine((r * 4 + i) as u64) {
                continue;
            }
            let m = shaped(ctx, *l);
            ctx.eval(&Cap { m, n: 8192, q: vec![9, 8, 7], default_buf: true });
        }
    }
}

pub const FLOORS: &[&str] = &[
    "floor:N=L",
    "floor:L-4..L-1",
    "floor:<L-4",
    "floor:N=0",
    "floor:N>L",
    "floor:default-buffer:N=L",
    "floor:default-buffer:L-4..L-1",
];

pub const RULE: &str = "cases = (payload m with structured tail [zero run 0..7, 1b run 0..13, literal escape, both orders], capacity N, next payload q): every L in 0..=63 with every N in 0..=L+1; \
L in {100,127,128,255,256,257,1000,1024,4096,8191,8192} with N in {0, menu value below L, L, menu value above L}; the default 8 KiB reader buffer with L in {8191,8192,8193,9000}. \
Observed through Decoder<ArrayBuf<N>>::push_byte, decode_streaming::<ArrayBuf<N>> and SmlReader::with_static_buffer::<N>() (io::Read source, position stamps). \
N >= L: exact trace [Ok(m) at the frame's last byte, Ok(q)]; N < L: OutOfMemory inside the first frame, no Ok inside it unless the suffix oracle justifies it, log ends with Ok(q) at the last byte. \
Distinct/non-trivial = distinct (capacity relation, tail class [trailing zeros, trailing 1b, literal escape], dense/large) tuples";
