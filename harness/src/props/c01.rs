//! C01 - transport round trip. Expected-trace monitor: for every payload p, every encoder e and every
//! decoder front-end f, the position-stamped event log of f on e(p) is exactly [(|e(p)|-1, Ok(p))] and
//! nothing is pending afterwards.

use crate::core::{Ctx, Fail, PropCase, Verdict};
use crate::ensure;
use crate::fe::*;
use crate::gen::payload::{self, SIGMA};
use crate::hexu::{hex_short, Case};
use crate::refm::transport::{escape_payload, ref_frame_len};
use crate::rng::mix;

pub struct RoundTrip {
    pub p: Vec<u8>,
    /// run every reader source x buffer combination (otherwise a rotating subset)
    pub full: bool,
}

impl PropCase for RoundTrip {
    fn to_case(&self) -> Case {
        Case::new("roundtrip").h("p", &self.p).n("full", self.full as usize)
    }
    fn from_case(c: &Case) -> Result<Self, String> {
        Ok(RoundTrip {
            p: c.bytes("p")?,
            full: c.num_or("full", 1) != 0,
        })
    }
    fn check(&self, ctx: &mut Ctx) -> Verdict {
        let p = &self.p;
        // ---- the frames produced by the real encoders
        let mut frames: Vec<(String, Vec<u8>)> = Vec::new();
        match run_encode(BufKind::Vec, p, false) {
            Ok(f) => frames.push(("encode<Vec>".into(), f)),
            Err(()) => return Err(Fail::new("encode<Vec>", "Ok(frame)", "Err(OutOfMemory)")),
        }
        if let Some(n) = menu_at_least(ref_frame_len(p)) {
            match run_encode(BufKind::Arr(n), p, true) {
                Ok(f) => frames.push((format!("encode<ArrayBuf<{}>>", n), f)),
                Err(()) => {
                    return Err(Fail::new(
                        "encode<ArrayBuf>",
                        format!("Ok(frame) with capacity {} >= frame length", n),
                        "Err(OutOfMemory)",
                    ))
                }
            }
        }
        let mode = (p.len() % 3) as u8;
        let es = run_encode_streaming(p, mode, 2);
        ensure!(
            !es.hit_bound,
            "encode_streaming",
            "iterator ends",
            "iterator still yielding after 2|p|+64 bytes"
        );
        frames.push((format!("encode_streaming(mode{})", mode), es.bytes));
        // de-duplicate identical frames (a disagreement between encoders is C07's business; the round
        // trip is then checked on each distinct frame)
        let mut distinct: Vec<(String, Vec<u8>)> = Vec::new();
        for (n, f) in frames {
            if !distinct.iter().any(|(_, g)| *g == f) {
                distinct.push((n, f));
            }
        }
        if distinct.len() > 1 {
            ctx.bump("encoders_disagree(see C07)");
        }
        let arr = menu_at_least(p.len()).map(BufKind::Arr);
        let h = mix(&[crate::rng::hash_bytes(p)]);
        for (ename, f) in &distinct {
            ensure!(
                !f.is_empty(),
                "encoder",
                "non-empty frame",
                format!("{} produced an empty frame", ename)
            );
            let want: Log = vec![(f.len() - 1, TEv::Ok(p.clone()))];
            let want_s = log_str(&want);
            // ---- F1
            let mut bufs = vec![BufKind::Vec];
            if let Some(a) = arr {
                bufs.push(a);
            }
            for &b in &bufs {
                let got = run_f1(b, f);
                ensure!(
                    got == want,
                    &format!("F1/{}/{}", b.kind_class(), ename),
                    want_s.clone(),
                    format!("{} (buffer {})", log_str(&got), b.name())
                );
                ctx.bump("runs:F1");
                // the same through Decoder::from_buf over a buffer with stale content
                let got = run_f1_from_buf(b, f);
                ensure!(
                    got == want,
                    &format!("F1-from_buf/{}/{}", b.kind_class(), ename),
                    want_s.clone(),
                    format!("{} (buffer {})", log_str(&got), b.name())
                );
            }
            // ---- F2
            let got = run_f2(f, h & 1 == 0);
            ensure!(
                got == vec![TEv::Ok(p.clone())],
                &format!("F2/{}", ename),
                format!("[Ok({})]", hex_short(p)),
                evs_str(&got)
            );
            ctx.bump("runs:F2");
            // ---- F3
            for &b in &bufs {
                let out = run_f3(b, f, 3);
                ensure!(
                    out.log == want && out.late.is_empty(),
                    &format!("F3/{}/{}", b.kind_class(), ename),
                    format!("{} then None", want_s),
                    format!("{} late={:?} (buffer {})", log_str(&out.log), out.late, b.name())
                );
                ctx.bump("runs:F3");
            }
            // ---- F3 over a non-fused source: the input ended at the source's first None
            {
                let after = crate::refm::transport::ref_encode(&[0x77, 0x66]);
                let out = run_f3_unfused(f, &after, 4);
                let evs: Vec<TEv> = out.log.iter().map(|(_, e)| e.clone()).collect();
                ensure!(
                    evs == vec![TEv::Ok(p.clone())] && out.late.is_empty(),
                    &format!("F3-unfused-source/{}", ename),
                    format!("[Ok({})] then None on every further call (no other output after the end of input)", hex_short(p)),
                    format!("{} late={:?}", evs_str(&evs), out.late)
                );
            }
            // ---- readers
            let srcs = [Src::Slice, Src::IterVal, Src::IterRef, Src::Io];
            let mut rbufs: Vec<RBuf> = vec![RBuf::Kind(BufKind::Vec)];
            if let Some(a) = arr {
                rbufs.push(RBuf::Kind(a));
            }
            if p.len() <= 8192 {
                rbufs.push(RBuf::Default);
            }
            let env = ReaderEnv::from_bytes(f);
            for (si, &src) in srcs.iter().enumerate() {
                for (bi, &rb) in rbufs.iter().enumerate() {
                    if !self.full && (h as usize + si) % rbufs.len() != bi {
                        continue;
                    }
                    let sub = format!("R/{}/{}", src.name(), ename);
                    let mut rd = new_reader(&env, src, rb);
                    let use_next = (h >> 3) & 1 == 0;
                    let first = rd.r.call(if use_next { Api::Next } else { Api::Read }, Target::Bytes);
                    let pulled = (rd.pulled)();
                    ensure!(
                        first == ROut::Bytes(p.clone()),
                        &sub,
                        format!("Bytes({})", hex_short(p)),
                        format!("{} (buffer {})", first.short(), rb.name())
                    );
                    if let Some(n) = pulled {
                        ensure!(
                            n == f.len(),
                            &sub,
                            format!("payload reported when exactly {} bytes were pulled from the source", f.len()),
                            format!("{} bytes pulled", n)
                        );
                    }
                    let second = rd.r.call(Api::Next, Target::Bytes);
                    ensure!(second == ROut::None, &sub, "next() == None after the frame", second.short());
                    let third = rd.r.call(Api::Read, Target::Bytes);
                    ensure!(
                        third == ROut::IoErr(IoKind::Eof, 0),
                        &sub,
                        "read() == Err(IoErr(Eof, 0)) after the frame",
                        third.short()
                    );
                    ctx.bump("runs:reader");
                }
            }
        }
        // ---- embedded-hal source (no end of input: an idle line keeps answering would-block)
        for (_ename, f) in &distinct {
            let env = ReaderEnv::from_bytes(f);
            let rb = if p.len() <= 8192 { RBuf::Default } else { RBuf::Kind(BufKind::Vec) };
            let mut rd = new_reader(&env, Src::Eh, rb);
            let api = if h & 4 == 0 { Api::Read } else { Api::NextNb };
            let first = rd.r.call(api, Target::Bytes);
            ensure!(first == ROut::Bytes(p.clone()), "R/eh", format!("Bytes({})", hex_short(p)), first.short());
            ensure!((rd.pulled)() == Some(f.len()), "R/eh", format!("{} bytes pulled", f.len()), format!("{:?}", (rd.pulled)()));
            let second = rd.r.call(Api::Read, Target::Bytes);
            ensure!(second == ROut::IoErr(IoKind::WouldBlock, 0), "R/eh", "IoErr(WouldBlock, 0) on an idle line", second.short());
            ctx.bump("runs:reader-eh");
        }
        // ---- situation class actually exercised
        let esc = escape_payload(p);
        let ones = payload::trailing_run(p, 0x1b).min(12);
        let zeros = payload::trailing_run(p, 0x00).min(6);
        let residue = (8 + esc.len()) % 4;
        let pad = (4 - residue) % 4;
        let lit_before_tail = {
            let t = p.len() - payload::trailing_run(p, 0x00);
            t >= 4 && p[t - 4..t] == [0x1b; 4]
        };
        let sc = payload::size_class(p.len());
        let key = mix(&[ones as u64, zeros as u64, residue as u64, lit_before_tail as u64, sc.len() as u64, p.len().min(3) as u64]);
        ctx.class(key, || {
            format!(
                "trail1b={} trail00={} pad={} esc-before-tail={} size{} len{}",
                ones,
                zeros,
                pad,
                lit_before_tail,
                sc,
                if p.len() >= 3 { "3+".to_string() } else { p.len().to_string() }
            )
        });
        ctx.bump(&format!("floor:pad{}", pad));
        ctx.bump(&format!("floor:tail1b_{}", ones.min(4)));
        ctx.bump(&format!("floor:size{}", sc));
        ctx.maxi("max_payload_len", p.len() as u64);
        ctx.sample(sc, || format!("payload={} -> every front-end gave [@last Ok(payload)]", hex_short(p)));
        Ok(())
    }
}

pub fn run(ctx: &mut Ctx) {
    // (a) exhaustive over SIGMA up to length 6 (quick) / 8 (thorough); in the rel slice length 5 / 6
    let maxlen: u32 = match (ctx.quick(), ctx.profile.as_str()) {
        (true, "chk") => 6,
        (true, _) => 5,
        (false, "chk") => 8,
        (false, _) => 7,
    };
    let total = payload::count_upto(5, maxlen);
    let mut mine = 0u64;
    for i in 0..total {
        if !ctx.mine(i) {
            continue;
        }
        let p = payload::nth_string(&SIGMA, i);
        let full = p.len() <= 5;
        ctx.eval(&RoundTrip { p, full });
        mine += 1;
    }
    ctx.exhaustive_space(&format!("payloads over {{1b,00,1a,01,7f}} of length <= {}", maxlen), mine);
    // (b)-(d) structured / look-alike / biased random
    let n = ctx.count(30_000, 2_000_000);
    for _ in 0..n {
        let p = payload::any_payload(&mut ctx.rng);
        ctx.eval(&RoundTrip { p, full: false });
    }
    // deterministic tail sweep: every trailing-1b run 0..13 x zero run 0..7 x both orders x prefix residue
    let mut idx = 0u64;
    for ones in 0..=13usize {
        for zeros in 0..=7usize {
            for order in 0..2 {
                for pre in 0..4usize {
                    for lit in 0..2 {
                        idx += 1;
                        if !ctx.mine(idx) {
                            continue;
                        }
                        let mut p: Vec<u8> = (0..pre).map(|i| 0x30 + i as u8).collect();
                        if lit == 1 {
                            p.extend_from_slice(&[0x1b; 4]);
                        }
                        if order == 0 {
                            p.extend(std::iter::repeat(0x1b).take(ones));
                            p.extend(std::iter::repeat(0).take(zeros));
                        } else {
                            p.extend(std::iter::repeat(0).take(zeros));
                            p.extend(std::iter::repeat(0x1b).take(ones));
                        }
                        ctx.eval(&RoundTrip { p, full: true });
                    }
                }
            }
        }
    }
    // big payloads (>= 256, >= 65536)
    let nbig = ctx.count(48, 400);
    for i in 0..nbig {
        let p = payload::tail_structured(&mut ctx.rng, i % 4 == 0);
        ctx.eval(&RoundTrip { p, full: false });
    }
    // boundary lengths around 2^8 and 2^16 (frame body a multiple of 256 / 65536 with 0..3 pad bytes), and long
    // runs of one byte
    let mut k = 0u64;
    for len in [252usize, 253, 254, 255, 256, 257, 258, 259, 260, 508, 509, 510, 511, 512, 65531, 65532, 65533, 65534, 65535, 65536, 65537, 65538, 65539, 65540] {
        for fill in [None, Some(0x1bu8), Some(0x00)] {
            k += 1;
            if !ctx.mine(k) {
                continue;
            }
            if len > 60000 && fill == Some(0x1b) && ctx.quick() && len % 2 == 1 {
                continue;
            }
            let p = match fill {
                None => ctx.rng.bytes(len),
                Some(b) => vec![b; len],
            };
            ctx.eval(&RoundTrip { p, full: false });
            ctx.bump("boundary_length_payloads");
        }
    }
    // real meter payloads
    for (i, p) in crate::corpus::payloads().iter().enumerate() {
        if ctx.mine(i as u64) {
            ctx.eval(&RoundTrip { p: p.clone(), full: false });
            ctx.bump("real_meter_payloads");
        }
    }
}

pub const FLOORS: &[&str] = &[
    "floor:pad0",
    "floor:pad1",
    "floor:pad2",
    "floor:pad3",
    "floor:tail1b_0",
    "floor:tail1b_1",
    "floor:tail1b_2",
    "floor:tail1b_3",
    "floor:tail1b_4",
    "floor:size<256",
    "floor:size256..65535",
];

pub const RULE: &str = "cases = payloads: exhaustive over {1b,00,1a,01,7f} up to the stated length, a deterministic tail sweep \
(trailing 1b run 0..13 x trailing zero run 0..7 x order x prefix residue x literal escape), tail-structured / look-alike / biased random payloads, \
big payloads (>=256, >=65536) and the real meter payloads; each is encoded by all three encoders and decoded by every front-end and buffer kind. \
A case is non-trivial and distinct by the tuple (trailing-1b run capped 12, trailing zero run capped 6, frame pad count, literal escape just before the tail, size class, length 0/1/2/3+) computed from the payload that was actually round-tripped";
