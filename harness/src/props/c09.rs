//! C09 - allocating and streaming parser agree. Differential monitor + list-protocol trace automaton.

use super::pin::{self, PIn};
use crate::conv::{reassemble, run_complete, run_streaming, SBody, SEv};
use crate::core::{Ctx, Fail, PropCase, Verdict};
use crate::hexu::{hex_short, Case};

pub struct AgreeP {
    pub x: Vec<u8>,
    pub family: &'static str,
    pub what: String,
}

impl AgreeP {
    pub fn of(p: PIn) -> AgreeP {
        AgreeP { x: p.bytes, family: p.family, what: p.what }
    }
}

impl PropCase for AgreeP {
    fn to_case(&self) -> Case {
        Case::new("agreep").h("x", &self.x).s("family", self.family)
    }
    fn from_case(c: &Case) -> Result<Self, String> {
        Ok(AgreeP { x: c.bytes("x")?, family: "replay", what: String::new() })
    }
    fn check(&self, ctx: &mut Ctx) -> Verdict {
        let x = &self.x;
        let c = run_complete(x);
        let st = run_streaming(x, 1);
        // list protocol on whatever was emitted (up to the first error or end)
        let ended_cleanly = st.first_err.is_none() && !st.hit_item_bound;
        let re = reassemble(&st.events, ended_cleanly);
        if let Err(e) = &re {
            return Err(Fail::new(
                "list-protocol",
                "per list response: MessageStart announcing n, exactly n ListEntry, one GetListResponseEnd, before the next MessageStart",
                format!("{} ; input {}", e, hex_short(x)),
            ));
        }
        match (&c, st.first_err) {
            (Ok(f), None) => {
                let got = re.unwrap();
                if *f != got {
                    let (e, o) = super::c03::diff_hint(f, &got);
                    return Err(Fail::new("content", format!("streaming events reassemble to the allocating parser's file: {}", e), o));
                }
            }
            (Ok(f), Some(k)) => {
                return Err(Fail::new(
                    "error-iff-error",
                    format!("no error (complete::parse returned a file with {} messages)", f.messages.len()),
                    format!("streaming parser: Err({}) after {} events ; input {}", k.name(), st.events.len(), hex_short(x)),
                ));
            }
            (Err(k), None) => {
                return Err(Fail::new(
                    "error-iff-error",
                    format!("an error of kind {} (what complete::parse reports)", k.name()),
                    format!("streaming parser: {} events and a clean end ; input {}", st.events.len(), hex_short(x)),
                ));
            }
            (Err(k), Some(k2)) => {
                if *k != k2 {
                    return Err(Fail::new(
                        "same-error-kind",
                        format!("{} (complete::parse)", k.name()),
                        format!("{} (streaming, after {} events) ; input {}", k2.name(), st.events.len(), hex_short(x)),
                    ));
                }
            }
        }
        // observed classes
        let oc = match &c {
            Ok(_) => "ok".to_string(),
            Err(k) => k.name().to_string(),
        };
        // where did the streaming parser stop?
        let phase = match (st.first_err, st.pending_at_err) {
            (None, _) => "clean-end".to_string(),
            (Some(_), Some(0)) => "message-start".to_string(),
            (Some(_), Some(1)) => "crc/end-marker".to_string(),
            (Some(_), Some(2)) => "list-trailer".to_string(),
            (Some(_), Some(_)) => "list-entry".to_string(),
            _ => "?".to_string(),
        };
        ctx.class_s(&format!("{} outcome={} at={}", self.family, oc, phase));
        ctx.bump(&format!("floor:agreed:{}", oc));
        for ev in &st.events {
            if let SEv::Start { body: SBody::ListStart(s), .. } = ev {
                let lc = match s.num_vals {
                    0 => "0",
                    1 => "1",
                    2..=14 => "2-14",
                    15 => "15",
                    16 => "16",
                    17..=255 => "17-255",
                    _ => ">=256",
                };
                if c.is_ok() {
                    ctx.bump(&format!("floor:list-fully-matched:{}", lc));
                }
            }
        }
        if ctx.want_sample(&oc) {
            ctx.sample(&oc, || format!("[{} {}] {} -> both: {} (streaming emitted {} events, stopped at {})", self.family, self.what, hex_short(x), oc, st.events.len(), phase));
        }
        Ok(())
    }
}

pub fn run(ctx: &mut Ctx) {
    ctx.journal_every_case(true);
    let nfiles = if ctx.quick() { 3 } else { 60 };
    for f in 0..nfiles {
        let mut r = crate::rng::Rng::new(9000 + f as u64 + ctx.seed * 31337);
        let e = if f == 0 { pin::small_fixed_file(&mut r) } else { pin::gen_encoded(&mut r, true) };
        for (i, p) in pin::exhaustive_for(&e, &mut r).into_iter().enumerate() {
            if ctx.mine(i as u64) {
                ctx.eval(&AgreeP::of(p));
            }
        }
    }
    // valid lists with 2^16 - 1 .. 2^16 + 1 real entries
    for (i, n) in [65535usize, 65536, 65537].iter().enumerate() {
        if ctx.mine(i as u64 + 9) {
            let mut r = crate::rng::Rng::new(199 + *n as u64);
            let ast = crate::gen::smlgen::gen_tiny_list_file(&mut r, *n);
            let e = crate::refm::sml::encode_canonical(&ast);
            ctx.eval(&AgreeP { x: e.bytes, family: "valid-2^16-entries", what: String::new() });
        }
    }
    // files with thousands of messages
    for (i, n) in [4096usize, 4097, 9000].iter().enumerate() {
        if ctx.mine(i as u64 + 12) {
            use crate::refm::sml::{ABody, AClose, AFile, AMsg};
            let msgs = (0..*n)
                .map(|j| AMsg { transaction_id: vec![(j % 251) as u8], group_no: (j % 256) as u8, abort_on_error: 0, body: ABody::Close(AClose { global_signature: None }) })
                .collect();
            let e = crate::refm::sml::encode_canonical(&AFile { messages: msgs });
            ctx.eval(&AgreeP { x: e.bytes, family: "valid-thousands-of-messages", what: String::new() });
        }
    }
    // valid files incl. long lists
    let n = ctx.count(20_000, 1_000_000);
    for i in 0..n {
        let ast = crate::gen::smlgen::gen_file(&mut ctx.rng, 4, if i % 50 == 0 { 300 } else { 20 });
        let k = crate::refm::sml::Knobs::random(&mut ctx.rng);
        let e = crate::refm::sml::encode_file(&ast, &k, &mut ctx.rng);
        ctx.eval(&AgreeP { x: e.bytes, family: "valid", what: String::new() });
    }
    let n = ctx.count(400_000, 20_000_000);
    for _ in 0..n {
        let p = pin::random_input(ctx);
        ctx.eval(&AgreeP::of(p));
    }
}

pub fn floors() -> Vec<String> {
    let mut v = Vec::new();
    // LeftoverInput cannot be produced through the public API (File::parse consumes until the input is empty)
    for k in ["ok", "UnexpectedEOF", "InvalidTlf(Overflow)", "InvalidTlf(Reserved)", "InvalidTlf(Underflow)", "InvalidTlf(NextByteType)", "InvalidTlf(InvalidTy)", "TlfMismatch", "CrcMismatch", "MsgEndMismatch", "UnexpectedVariant"] {
        v.push(format!("floor:agreed:{}", k));
    }
    for l in ["0", "1", "15", "16", ">=256"] {
        v.push(format!("floor:list-fully-matched:{}", l));
    }
    v
}

pub const RULE: &str = "cases = byte strings: valid files (lists up to 300 entries), every per-offset corruption / TLF substitution / length manipulation of small files with stale and recomputed checksums, structural faults, splices, truncations, random bytes. \
Monitor: complete::parse vs. the streaming parser driven by hand up to its first error or None: error iff error with the same kind (ParseError variant, inner TlfParseError variant; the type-name string is not part of the kind), \
equal content when both succeed, and a trace automaton for the list protocol on every event sequence. Cases are journalled and run in a subprocess (an abort of one parser is a disagreement). \
Distinct/non-trivial = distinct (input family, agreed outcome, parser phase at the streaming parser's first error [hook, evidence only]) tuples";
