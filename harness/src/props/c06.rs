//! C06 - parsers are total and input-proportional. Panic / overflow / abort / hang monitor plus the
//! tracking global allocator read in a window around each parser call.

use super::pin::{self, PIn};
use crate::alloc_track::window;
use crate::core::{Ctx, PropCase, Verdict};
use crate::ensure;
use crate::gen::smlgen;
use crate::hexu::{hex_short, Case};
use crate::refm::sml::{encode_canonical, AFile, AMsg, ABody, AClose};
use sml_rs::parser::{complete, streaming};

/// heap bound for the allocating parser: requested bytes <= PER_BYTE * |x| + SLACK.
/// An honest parser needs ~22 bytes of heap per input byte incl. Vec doubling; the additive 1 MiB leaves room for a fixed-size pre-allocation that does not depend on the input at all (size_of::<Message>() = 128 for >= 20 wire
/// bytes, size_of::<ListEntry>() = 88 for >= 8 wire bytes); 256x is an order of magnitude of slack.
pub const PER_BYTE: u64 = 256;
pub const SLACK: u64 = 1024 * 1024;

pub struct Total {
    pub x: Vec<u8>,
    pub family: &'static str,
    /// parametric big honest inputs: (messages, entries) instead of `x`
    pub big: Option<(usize, usize)>,
}

fn big_input(msgs: usize, entries: usize) -> Vec<u8> {
    let mut rng = crate::rng::Rng::new(42);
    let mut f = AFile { messages: Vec::new() };
    if entries > 0 {
        let t = smlgen::gen_typical(&mut rng, 1);
        let mut m = t.messages[1].clone();
        if let ABody::GetList(g) = &mut m.body {
            let e = g.val_list[0].clone();
            g.val_list = vec![e; entries];
        }
        f.messages.push(m);
    }
    for i in 0..msgs {
        f.messages.push(AMsg {
            transaction_id: vec![(i % 251) as u8, 2, 3],
            group_no: 0,
            abort_on_error: 0,
            body: ABody::Close(AClose { global_signature: None }),
        });
    }
    encode_canonical(&f).bytes
}

impl PropCase for Total {
    fn to_case(&self) -> Case {
        match self.big {
            Some((m, e)) => Case::new("total").n("bigmsgs", m).n("bigentries", e),
            None => Case::new("total").h("x", &self.x).s("family", self.family),
        }
    }
    fn from_case(c: &Case) -> Result<Self, String> {
        if c.kv.contains_key("bigmsgs") {
            return Ok(Total {
                x: Vec::new(),
                family: "big-honest",
                big: Some((c.num("bigmsgs")?, c.num("bigentries")?)),
            });
        }
        Ok(Total {
            x: c.bytes("x")?,
            family: "replay",
            big: None,
        })
    }
    fn check(&self, ctx: &mut Ctx) -> Verdict {
        let owned;
        let x: &[u8] = match self.big {
            Some((m, e)) => {
                owned = big_input(m, e);
                &owned
            }
            None => &self.x,
        };
        // ---- allocating parser inside an allocation window
        let (res, w) = window(|| complete::parse(x).map(|f| f.messages.len()));
        let res = res.map_err(|e| crate::conv::PKind::of(&e));
        let bound = PER_BYTE * x.len() as u64 + SLACK;
        ensure!(
            w.bytes <= bound,
            "heap-bounded-by-input",
            format!("heap requested by complete::parse <= {} * |x| + {} = {} bytes for an input of {} bytes", PER_BYTE, SLACK, bound, x.len()),
            format!("{} bytes requested in {} calls, largest single request {} bytes; input {}", w.bytes, w.calls, w.max_single, hex_short(x))
        );
        ctx.maxi("max_heap_bytes_complete", w.bytes);
        if !x.is_empty() {
            ctx.maxi("max_heap_bytes_per_input_byte_x100", w.bytes * 100 / x.len() as u64);
        }
        // ---- streaming parser: no allocation at all between Parser::new and the last next()
        let (st, w2) = window(|| {
            let mut p = streaming::Parser::new(x);
            let mut items = 0usize;
            let mut err = false;
            loop {
                match p.next() {
                    None => break,
                    Some(Ok(_)) => items += 1,
                    Some(Err(_)) => {
                        // keep polling: the iteration as a whole has to end (bounded by |x|+1 items)
                        items += 1;
                        err = true;
                    }
                }
                if items > x.len() + 1 {
                    break;
                }
            }
            (items, err)
        });
        ensure!(
            w2.calls == 0,
            "streaming-allocates-nothing",
            "0 heap requests by the streaming parser",
            format!("{} requests, {} bytes", w2.calls, w2.bytes)
        );
        ensure!(
            st.0 <= x.len() + 1,
            "streaming-terminates",
            format!("the iteration ends after at most |x|+1 = {} items (events and errors)", x.len() + 1),
            format!("{} items and still going", st.0)
        );
        // ---- the streaming parser drained through `collect` (which consults `size_hint`): what the collection
        // requests is bounded by the input length as well, never by a declared length. `Capped` forwards the
        // parser's own size_hint unchanged and only guards the monitor against an iteration that does not end.
        let cap_items = x.len() + 2;
        let (n3, w3) = window(|| {
            let v: Vec<_> = Capped { inner: streaming::Parser::new(x), left: cap_items }.collect();
            v.len()
        });
        ensure!(
            w3.bytes <= bound,
            "collect-heap-bounded-by-input",
            format!("heap requested by streaming::Parser::new(x).collect::<Vec<_>>() <= {} * |x| + {} = {} bytes for an input of {} bytes", PER_BYTE, SLACK, bound, x.len()),
            format!("{} bytes requested in {} calls, largest single request {} bytes ({} items collected); input {}", w3.bytes, w3.calls, w3.max_single, n3, hex_short(x))
        );
        ctx.maxi("max_heap_bytes_streaming_collect", w3.bytes);
        // observed classes
        let oc = match &res {
            Ok(_) => "ok".to_string(),
            Err(k) => k.name().to_string(),
        };
        ctx.class_s(&format!("{} complete={} streaming-err={}", self.family, oc, st.1));
        ctx.bump(&format!("family:{}", self.family));
        if self.family == "huge" {
            ctx.bump("floor:huge-declared-length");
        }
        if self.big.is_some() {
            ctx.bump("floor:big-honest-input");
            ctx.maxi("max_input_len", x.len() as u64);
        }
        if ctx.want_sample(self.family) {
            ctx.sample(self.family, || format!("|x|={} {} -> complete {} with {} heap bytes in {} requests; streaming {} items, 0 requests", x.len(), hex_short(x), oc, w.bytes, w.calls, st.0));
        }
        Ok(())
    }
}

/// passes `size_hint` of the wrapped iterator through untouched; ends after `left` items
struct Capped<I> {
    inner: I,
    left: usize,
}

impl<I: Iterator> Iterator for Capped<I> {
    type Item = I::Item;
    fn next(&mut self) -> Option<I::Item> {
        if self.left == 0 {
            return None;
        }
        self.left -= 1;
        self.inner.next()
    }
    fn size_hint(&self) -> (usize, Option<usize>) {
        self.inner.size_hint()
    }
}

impl Total {
    pub fn of(p: PIn) -> Total {
        Total { x: p.bytes, family: p.family, big: None }
    }
}

pub fn run(ctx: &mut Ctx) {
    ctx.journal_every_case(true);
    crate::fe::format_errors(true);
    // declared lengths 2^8 .. 2^44 at EVERY TLF position of valid files (stale and fixed CRC)
    let nfiles = if ctx.quick() { 6 } else { 200 };
    for f in 0..nfiles {
        let mut r = crate::rng::Rng::new(5000 + f as u64 + ctx.seed * 104729);
        let e = if f == 0 { pin::small_fixed_file(&mut r) } else { pin::gen_encoded(&mut r, f % 2 == 0) };
        let mut i = 0u64;
        for ti in 0..e.map.tlfs.len() {
            for (tl, cls) in crate::gen::corrupt::tlf_substitutions(&e, ti) {
                for fix in [false, true] {
                    i += 1;
                    if !ctx.mine(i) {
                        continue;
                    }
                    let c = crate::gen::corrupt::replace_tlf(&e, ti, &tl, fix, cls);
                    ctx.eval(&Total { x: c.bytes, family: c.class, big: None });
                }
            }
        }
        // the input ends 0..6 bytes behind a (possibly huge) value-list TLF
        for ti in 0..e.map.tlfs.len() {
            if e.map.tlfs[ti].role != crate::refm::sml::Role::ValList {
                continue;
            }
            for (tl, cls) in crate::gen::corrupt::tlf_substitutions(&e, ti) {
                let c = crate::gen::corrupt::replace_tlf(&e, ti, &tl, false, cls);
                let end_tlf = e.map.tlfs[ti].off + tl.len();
                for extra in 0..=6usize {
                    i += 1;
                    if !ctx.mine(i) {
                        continue;
                    }
                    let cut = (end_tlf + extra).min(c.bytes.len());
                    ctx.eval(&Total { x: c.bytes[..cut].to_vec(), family: "huge-then-eof", big: None });
                }
            }
        }
        // truncation at every offset (small files only)
        if e.bytes.len() <= 400 {
            for off in 0..e.bytes.len() {
                i += 1;
                if ctx.mine(i) {
                    ctx.eval(&Total { x: e.bytes[..off].to_vec(), family: "truncate", big: None });
                }
            }
        }
        // truncation of list responses at every entry boundary
        for (k, off) in e.map.entry_offs.iter().enumerate() {
            if ctx.mine(k as u64) {
                ctx.eval(&Total { x: e.bytes[..*off].to_vec(), family: "truncate-at-entry", big: None });
            }
        }
    }
    // huge declared lengths in front of 0..17 near-minimal (8..10 byte) entries: the cheapest possible input per
    // declared entry
    {
        let mut r = crate::rng::Rng::new(777 + ctx.seed);
        let mut i = 0u64;
        for n in [0usize, 1, 2, 3, 4, 5, 8, 16, 17, 64] {
            for rep in 0..3 {
                let ast = smlgen::gen_tiny_list_file(&mut r, n);
                let e = encode_canonical(&ast);
                let _ = rep;
                for ti in 0..e.map.tlfs.len() {
                    if e.map.tlfs[ti].role != crate::refm::sml::Role::ValList {
                        continue;
                    }
                    for (tl, cls) in crate::gen::corrupt::tlf_substitutions(&e, ti) {
                        i += 1;
                        if !ctx.mine(i) {
                            continue;
                        }
                        let c = crate::gen::corrupt::replace_tlf(&e, ti, &tl, true, cls);
                        ctx.eval(&Total { x: c.bytes, family: "huge-before-tiny-entries", big: None });
                    }
                }
            }
        }
    }
    // honest big inputs: the bound is not vacuous
    let bigs: &[(usize, usize)] = if ctx.quick() { &[(10_000, 0), (0, 100_000), (500, 5_000)] } else { &[(10_000, 0), (0, 100_000), (500, 5_000), (100_000, 0), (0, 1_000_000)] };
    for (i, (m, e)) in bigs.iter().enumerate() {
        if ctx.mine(i as u64) {
            ctx.eval(&Total { x: Vec::new(), family: "big-honest", big: Some((*m, *e)) });
        }
    }
    let n = ctx.count(300_000, 20_000_000);
    for _ in 0..n {
        let p = pin::random_input(ctx);
        ctx.eval(&Total::of(p));
    }
    // pure random bytes
    let n = ctx.count(40_000, 2_000_000);
    for _ in 0..n {
        let l = ctx.rng.range(0, 64);
        let x = ctx.rng.bytes(l);
        ctx.eval(&Total { x, family: "uniform-random", big: None });
    }
}

pub const FLOORS: &[&str] = &["floor:huge-declared-length", "floor:big-honest-input"];

pub const RULE: &str = "cases = byte strings: TLF substitutions with declared lengths 2^8, 2^16-1, 2^16, 2^24, 2^31, 2^32-3 .. 2^32+10, 2^36, 2^44-1 (8..12 byte TLFs) and length +-1 / other type codes at EVERY TLF position of valid files \
(list, string and integer TLFs; stale and recomputed checksum), truncations of list responses at every entry boundary, all corruption families of C04, uniform random bytes, and honest big inputs (10^4 messages, 10^5 list entries) that show the bound is not vacuous. \
Monitor: tracking global allocator read around complete::parse (requested bytes <= 256*|x| + 1 MiB) and around the whole streaming iteration (0 requests); every case is journalled first and run in a worker subprocess so that an allocation abort or a hang is attributed to its input; \
builds with overflow checks + debug assertions and plain release. Distinct/non-trivial = distinct (input family, outcome of the allocating parser, streaming error yes/no) tuples";
