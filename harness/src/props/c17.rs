//! C17 - every input byte is accounted for exactly once. Offline tiling (conservation) checker over
//! recorded position-stamped event logs.

use crate::core::{Ctx, Fail, PropCase, Verdict};
use crate::ensure;
use crate::fe::*;
use crate::gen::{payload, stream};
use crate::hexu::{hex_short, Case};
use crate::mon::{check_tiling, discard_class};
use crate::refm::transport::ref_encode;

/// stream given as a list of parts so that long noise stays parametric in the replay file:
/// `r:<n>:<fill>` = run, `h:<hex>` = literal bytes
#[derive(Clone, Debug)]
pub enum Part {
    Run(usize, u8),
    Lit(Vec<u8>),
}

pub fn parts_to_text(p: &[Part]) -> String {
    let v: Vec<String> = p
        .iter()
        .map(|x| match x {
            Part::Run(n, f) => format!("r:{}:{}", n, f),
            Part::Lit(b) => format!("h:{}", crate::hexu::hex(b)),
        })
        .collect();
    v.join(",")
}

pub fn parts_from_text(t: &str) -> Result<Vec<Part>, String> {
    let mut v = Vec::new();
    for tok in t.split(',').filter(|x| !x.is_empty()) {
        let mut it = tok.split(':');
        match it.next() {
            Some("r") => {
                let n = it.next().ok_or("run")?.parse::<usize>().map_err(|e| e.to_string())?;
                let f = it.next().ok_or("fill")?.parse::<u8>().map_err(|e| e.to_string())?;
                v.push(Part::Run(n, f));
            }
            Some("h") => v.push(Part::Lit(crate::hexu::unhex(it.next().unwrap_or(""))?)),
            _ => return Err(format!("bad part '{}'", tok)),
        }
    }
    Ok(v)
}

pub fn parts_bytes(p: &[Part]) -> Vec<u8> {
    let mut s = Vec::new();
    for x in p {
        match x {
            Part::Run(n, f) => s.extend(std::iter::repeat(*f).take(*n)),
            Part::Lit(b) => s.extend_from_slice(b),
        }
    }
    s
}

pub struct Tile {
    pub parts: Vec<Part>,
    pub buf: BufKind,
    /// 'f' = finalize at the end, 'r' = reset at the end
    pub end: char,
    pub origin: &'static str,
}

impl PropCase for Tile {
    fn to_case(&self) -> Case {
        Case::new("tile")
            .s("parts", &parts_to_text(&self.parts))
            .s("buf", &self.buf.name())
            .s("end", &self.end.to_string())
    }
    fn from_case(c: &Case) -> Result<Self, String> {
        Ok(Tile {
            parts: parts_from_text(c.get("parts")?)?,
            buf: BufKind::parse(c.get("buf")?)?,
            end: c.get("end")?.chars().next().unwrap_or('f'),
            origin: "replay",
        })
    }
    fn check(&self, ctx: &mut Ctx) -> Verdict {
        let s = parts_bytes(&self.parts);
        let mut d = new_decoder(self.buf);
        let mut log = Log::new();
        feed(d.as_mut(), &s, 0, &mut log);
        let end = if self.end == 'r' {
            let n = d.reset();
            if n > 0 {
                Some(n)
            } else {
                None
            }
        } else {
            match d.finalize() {
                None => None,
                Some(DErr::Discarded(n)) => Some(n),
                Some(other) => {
                    return Err(Fail::new("finalize-kind", "None or DiscardedBytes(n)", format!("{:?}", other)));
                }
            }
        };
        let st = match check_tiling(&s, &log, end) {
            Ok(st) => st,
            Err(e) => {
                return Err(Fail::new(
                    if self.end == 'r' { "tiling/push+reset" } else { "tiling/push+finalize" },
                    "the reported ranges tile the input (each count = bytes between the previous boundary and the start sequence / end of input)",
                    format!("{} ; log={} end={:?} (|s|={}, buffer {})", e, log_str(&log), end, s.len(), self.buf.name()),
                ));
            }
        };
        // the pull front-ends' view of the same stream: IoErr(Eof, n) carries the final count
        if s.len() <= 1 << 18 {
            let env = ReaderEnv::from_bytes(&s);
            let rb = match self.buf {
                BufKind::Vec => RBuf::Kind(BufKind::Vec),
                b => RBuf::Kind(b),
            };
            let mut rd = new_reader(&env, Src::Io, rb);
            let mut rl = Log::new();
            let mut rend = None;
            for _ in 0..s.len() + 4 {
                let out = rd.r.call(Api::Read, Target::Bytes);
                let pos = (rd.pulled)().unwrap_or(0).saturating_sub(1);
                match out {
                    ROut::Bytes(b) => rl.push((pos, TEv::Ok(b))),
                    ROut::DecodeErr(e) => rl.push((pos, TEv::Err(e))),
                    ROut::IoErr(IoKind::Eof, n) => {
                        rend = if n > 0 { Some(n) } else { None };
                        break;
                    }
                    other => return Err(Fail::new("reader-result", "decode results or Eof", other.short())),
                }
            }
            if let Err(e) = check_tiling(&s, &rl, rend) {
                return Err(Fail::new(
                    "tiling/reader+eof",
                    "the reported ranges tile the input",
                    format!("{} ; log={} eof-count={:?}", e, log_str(&rl), rend),
                ));
            }
        }
        let dc = discard_class(st.max_discard);
        let mut kinds: Vec<&str> = log
            .iter()
            .map(|(_, e)| match e {
                TEv::Ok(_) => "Ok",
                TEv::Err(e) => e.kind(),
            })
            .collect();
        kinds.sort();
        kinds.dedup();
        let key = crate::rng::hash_str(&format!("{:?}{}{}", kinds, dc, end.is_some()));
        ctx.class(key, || format!("kinds={:?} max-discard{} final-discard={}", kinds, dc, end.is_some()));
        ctx.maxi("max_discard_count_verified", st.max_discard as u64);
        if st.max_discard >= 65536 {
            ctx.bump("floor:discard>=65536-verified-exact");
        }
        if st.final_discard {
            ctx.bump("floor:final-discard-verified");
        }
        ctx.add("frames_or_rejections_tiled", st.frames as u64);
        ctx.add("discard_reports_tiled", st.discards as u64);
        ctx.bump(&format!("origin:{}", self.origin));
        if ctx.want_sample(self.origin) {
            ctx.sample(self.origin, || format!("stream={} (|s|={}) -> {} end={:?}: tiles", hex_short(&s), s.len(), log_str(&log), end));
        }
        Ok(())
    }
}

/// noise runs too long to materialise (2^32 and beyond): fed byte by byte, the two expected events are
/// checked directly (thorough tier only)
pub struct HugeNoise {
    pub n: u64,
    pub fill: u8,
    /// what follows the noise: 'F' = a frame, 'f' = finalize(), 'r' = reset()
    pub end: char,
}

impl PropCase for HugeNoise {
    fn to_case(&self) -> Case {
        Case::new("hugenoise").s("n", &self.n.to_string()).n("fill", self.fill as usize).s("end", &self.end.to_string())
    }
    fn from_case(c: &Case) -> Result<Self, String> {
        Ok(HugeNoise {
            n: c.get("n")?.parse::<u64>().map_err(|e| e.to_string())?,
            fill: c.num("fill")? as u8,
            end: c.get_or("end", "F").chars().next().unwrap_or('F'),
        })
    }
    fn check(&self, ctx: &mut Ctx) -> Verdict {
        let q = vec![0x0a, 0x0b, 0x0c];
        let f = ref_encode(&q);
        let mut d = new_decoder(BufKind::Vec);
        for i in 0..self.n {
            if let Err(e) = d.push(self.fill) {
                return Err(Fail::new("tiling/huge-noise", "no event while only noise arrives", format!("{:?} at byte {}", e, i)));
            }
            if i & 0x0fff_ffff == 0 {
                ctx.heartbeat();
            }
        }
        if self.end != 'F' {
            // the noise is all there is: finalize() / reset() must report exactly n
            let got = if self.end == 'r' {
                d.reset() as u64
            } else {
                match d.finalize() {
                    Some(DErr::Discarded(k)) => k as u64,
                    other => return Err(Fail::new("tiling/huge-noise", format!("Some(DiscardedBytes({}))", self.n), format!("{:?}", other))),
                }
            };
            ensure!(got == self.n, "tiling/huge-noise", format!("{} bytes reported at the end", self.n), format!("{}", got));
            ctx.maxi("max_discard_count_verified", self.n);
            ctx.bump("huge-noise-cases");
            ctx.class_s(&format!("huge noise 2^{} fill {:02x} end {}", 63 - self.n.leading_zeros(), self.fill, self.end));
            return Ok(());
        }
        let mut evs = Vec::new();
        for (i, b) in f.iter().enumerate() {
            match d.push(*b) {
                Ok(None) => {}
                Ok(Some(p)) => evs.push((i, TEv::Ok(p))),
                Err(e) => evs.push((i, TEv::Err(e))),
            }
        }
        let want = vec![(7usize, TEv::Err(DErr::Discarded(self.n as usize))), (f.len() - 1, TEv::Ok(q.clone()))];
        ensure!(
            evs.len() == 2 && evs[0].1 == want[0].1 && evs[1] == want[1],
            "tiling/huge-noise",
            format!("DiscardedBytes({}) and then Ok({}) at the frame's last byte", self.n, hex_short(&q)),
            log_str(&evs)
        );
        ctx.maxi("max_discard_count_verified", self.n);
        ctx.bump("huge-noise-cases");
        ctx.class_s(&format!("huge noise 2^{} fill {:02x}", 63 - self.n.leading_zeros(), self.fill));
        Ok(())
    }
}

/// reader with I/O errors: the count attached to an error must equal the not-yet-reported bytes
pub struct TileIo {
    pub items: Vec<Item>,
    pub rbuf: RBuf,
}

pub fn items_to_text(items: &[Item]) -> String {
    let mut s = String::new();
    let mut run: Vec<u8> = Vec::new();
    let flush = |s: &mut String, run: &mut Vec<u8>| {
        if !run.is_empty() {
            if !s.is_empty() {
                s.push(',');
            }
            s.push_str(&crate::hexu::hex(run));
            run.clear();
        }
    };
    for it in items {
        match it {
            Item::Byte(b) => run.push(*b),
            other => {
                flush(&mut s, &mut run);
                if !s.is_empty() {
                    s.push(',');
                }
                s.push_str(match other {
                    Item::WouldBlock => "W",
                    Item::Interrupted => "I",
                    Item::Other => "O",
                    Item::EofOnce => "E",
                    Item::Byte(_) => unreachable!(),
                });
            }
        }
    }
    flush(&mut s, &mut run);
    s
}

pub fn items_from_text(t: &str) -> Result<Vec<Item>, String> {
    let mut v = Vec::new();
    for tok in t.split(',').filter(|x| !x.is_empty()) {
        match tok {
            "W" => v.push(Item::WouldBlock),
            "I" => v.push(Item::Interrupted),
            "O" => v.push(Item::Other),
            "E" => v.push(Item::EofOnce),
            h => v.extend(crate::hexu::unhex(h)?.into_iter().map(Item::Byte)),
        }
    }
    Ok(v)
}

impl PropCase for TileIo {
    fn to_case(&self) -> Case {
        Case::new("tileio").s("script", &items_to_text(&self.items)).s("rbuf", &self.rbuf.name())
    }
    fn from_case(c: &Case) -> Result<Self, String> {
        Ok(TileIo {
            items: items_from_text(c.get("script")?)?,
            rbuf: RBuf::parse(c.get("rbuf")?)?,
        })
    }
    fn check(&self, ctx: &mut Ctx) -> Verdict {
        let env = ReaderEnv::from_script(self.items.clone());
        let s = &env.data;
        let mut rd = new_reader(&env, Src::Io, self.rbuf);
        // segments between I/O errors are tiled separately: an error (Other / transient EOF) at source
        // offset q closes the current segment with its count
        let mut seg_base = 0usize;
        let mut seg_log = Log::new();
        let mut eofs = 0;
        for _ in 0..self.items.len() + 8 {
            let out = rd.r.call(Api::Read, Target::Bytes);
            let pulled = (rd.pulled)().unwrap_or(0);
            match out {
                ROut::Bytes(b) => seg_log.push((pulled - 1 - seg_base, TEv::Ok(b))),
                ROut::DecodeErr(e) => seg_log.push((pulled - 1 - seg_base, TEv::Err(e))),
                ROut::IoErr(IoKind::WouldBlock, n) => {
                    ensure!(n == 0, "wouldblock-count", "IoErr(WouldBlock, 0)", format!("IoErr(WouldBlock, {})", n));
                    ctx.bump("wouldblock_seen");
                }
                ROut::IoErr(kind, n) => {
                    let seg = &s[seg_base..pulled];
                    let end = if n > 0 { Some(n) } else { None };
                    if let Err(e) = check_tiling(seg, &seg_log, end) {
                        return Err(Fail::new(
                            "tiling/io-error-count",
                            "the count attached to the I/O error equals the bytes not yet reported",
                            format!("{} ; segment={} log={} error={:?}({})", e, hex_short(seg), log_str(&seg_log), kind, n),
                        ));
                    }
                    ctx.bump(&format!("floor:io-error-count-verified:{:?}", kind));
                    if n > 0 {
                        ctx.bump("floor:io-error-with-pending-bytes");
                    }
                    seg_base = pulled;
                    seg_log.clear();
                    if kind == IoKind::Eof && rd_exhausted(&env, pulled) {
                        eofs += 1;
                        if eofs >= 2 {
                            break;
                        }
                    }
                }
                other => return Err(Fail::new("reader-result", "decode result or IoErr", other.short())),
            }
        }
        ctx.class_s(&format!("io script faults={}", self.items.iter().filter(|i| !matches!(i, Item::Byte(_))).count().min(4)));
        Ok(())
    }
}

fn rd_exhausted(env: &ReaderEnv, pulled: usize) -> bool {
    pulled >= env.data.len()
}

pub fn run(ctx: &mut Ctx) {
    // long noise before / between / after frames, both profiles
    let f = ref_encode(&[0x11, 0x22, 0x33, 0x44]);
    let mut k = 0u64;
    let mut lens = vec![255usize, 256, 65534, 65535, 65536, 65537, 65538, 131071, 131072, 131073, 200000, 1 << 20];
    if !ctx.quick() {
        lens.push(1 << 24);
    }
    for &n in &lens {
        for fill in [0x55u8, 0x00, 0x1b, 0x01] {
            for shape in 0..4 {
                k += 1;
                if !ctx.mine(k) {
                    continue;
                }
                if n >= 1 << 20 && (shape > 1 || (fill == 0x01 && shape != 0)) {
                    continue;
                }
                let parts = match shape {
                    // a frame in flight for n bytes (raw body), never finished
                    0 if fill == 0x01 => vec![Part::Lit(f[..8].to_vec()), Part::Run(n, 0x41)],
                    0 => vec![Part::Run(n, fill), Part::Lit(f.clone())],
                    1 => vec![Part::Lit(f.clone()), Part::Run(n, fill)],
                    2 => vec![Part::Lit(f.clone()), Part::Run(n, fill), Part::Lit(f.clone()), Part::Run(7, fill)],
                    _ => vec![Part::Run(n, fill), Part::Lit(vec![0x1b, 0x1b, 0x1b, 0x1b, 0x01]), Part::Run(3, 0x55), Part::Lit(f.clone())],
                };
                for end in ['f', 'r'] {
                    ctx.eval(&Tile { parts: parts.clone(), buf: BufKind::Vec, end, origin: "long-noise" });
                }
            }
        }
    }
    // noise beyond 2^32 bytes (thorough only, one worker per fill byte)
    if !ctx.quick() {
        for (i, (fill, end)) in [(0x55u8, 'F'), (0x1b, 'F'), (0x55, 'f'), (0x00, 'r')].iter().enumerate() {
            if ctx.mine(i as u64 + 11) {
                ctx.eval(&HugeNoise { n: (1u64 << 32) + 5, fill: *fill, end: *end });
            }
        }
    }
    // 2^24 bytes of noise also in the quick tier (cheap when fed byte by byte)
    for (i, (fill, end)) in [(0x55u8, 'F'), (0x1b, 'f'), (0x01, 'r')].iter().enumerate() {
        if ctx.mine(i as u64 + 3) {
            ctx.eval(&HugeNoise { n: (1u64 << 24) + 3, fill: *fill, end: *end });
        }
    }
    // ... and one run beyond 2^28 (about a second of push_byte calls)
    if ctx.mine(7) && (ctx.profile == "rel" || !ctx.quick()) {
        ctx.eval(&HugeNoise { n: (1u64 << 28) + 5, fill: 0x55, end: 'F' });
    }
    // adversarial streams and concatenations, every error kind interleaved
    let n = ctx.count(400_000, 20_000_000);
    for i in 0..n {
        let s = if i % 3 == 0 {
            stream::concat_stream(&mut ctx.rng, 1 + i % 8)
        } else {
            stream::any_stream(&mut ctx.rng)
        };
        let buf = match ctx.rng.below(4) {
            0 => BufKind::Arr(*ctx.rng.pick(&[0usize, 1, 2, 3, 4, 8, 16])),
            1 => BufKind::Arr(256),
            _ => BufKind::Vec,
        };
        let end = if ctx.rng.chance(1, 2) { 'f' } else { 'r' };
        ctx.eval(&Tile { parts: vec![Part::Lit(s)], buf, end, origin: "adversarial" });
    }
    // I/O errors and transient end of input at random positions
    let n = ctx.count(60_000, 2_000_000);
    for _ in 0..n {
        let s = stream::concat_stream(&mut ctx.rng, 3);
        let mut items: Vec<Item> = Vec::new();
        for b in &s {
            if ctx.rng.chance(1, 25) {
                items.push(*ctx.rng.pick(&[Item::Other, Item::Other, Item::WouldBlock, Item::Interrupted, Item::EofOnce]));
            }
            items.push(Item::Byte(*b));
        }
        let rbuf = *ctx.rng.pick(&[RBuf::Default, RBuf::Kind(BufKind::Vec), RBuf::Kind(BufKind::Arr(64))]);
        ctx.eval(&TileIo { items, rbuf });
    }
    for (i, (_, b)) in crate::corpus::files().iter().enumerate() {
        if ctx.mine(i as u64) {
            ctx.eval(&Tile { parts: vec![Part::Lit(b.clone())], buf: BufKind::Vec, end: 'f', origin: "recording" });
        }
    }
    let _ = payload::SIGMA;
}

pub const FLOORS: &[&str] = &[
    "floor:discard>=65536-verified-exact",
    "floor:final-discard-verified",
    "floor:io-error-count-verified:Other",
    "floor:io-error-count-verified:Eof",
    "floor:io-error-with-pending-bytes",
];

pub const RULE: &str = "cases = byte streams with the recorded position-stamped log of the push decoder + finalize()/reset() return value, of SmlReader::read over io::Read up to end of input, and of readers with \
scripted I/O errors / transient EOF (count attached to IoErr). An offline checker requires the log to tile the input: DiscardedBytes(n) must sit on a completed start sequence with n = bytes since the previous boundary; \
Ok / InvalidMessage / InvalidEsc / OutOfMemory must close a range that begins with a start sequence; the final count must equal the unreported remainder. Workload: long noise (255 .. 2^20, thorough 2^24; fills 55/00/1b/01) before, between and after frames, \
adversarial streams and concatenations on all buffer kinds, the real recordings. Distinct/non-trivial = distinct (set of event kinds, largest verified discard count class, final discard present) tuples";
