//! C05 - the transport layer is total. Panic / overflow (chk build) / abort / hang monitor over hostile
//! streams and call histories; "remains usable" is checked operationally by driving the same object on.

use crate::core::{Ctx, PropCase, Verdict};
use crate::ensure;
use crate::fe::*;
use crate::gen::{payload, stream};
use crate::hexu::{hex, hex_short, unhex, Case};
use crate::refm::transport::{ref_encode, ref_frame_len};

#[derive(Clone, Debug)]
pub enum Op {
    Push(Vec<u8>),
    Finalize,
    Reset,
    /// usability probe: reset, then a fresh canonical frame must be delivered
    Probe,
}

pub struct History {
    pub buf: BufKind,
    pub ops: Vec<Op>,
}

fn ops_to_text(ops: &[Op]) -> String {
    let v: Vec<String> = ops
        .iter()
        .map(|o| match o {
            Op::Push(b) => format!("p:{}", hex(b)),
            Op::Finalize => "f".into(),
            Op::Reset => "r".into(),
            Op::Probe => "u".into(),
        })
        .collect();
    v.join(",")
}

fn ops_from_text(t: &str) -> Result<Vec<Op>, String> {
    let mut v = Vec::new();
    for tok in t.split(',').filter(|x| !x.is_empty()) {
        v.push(match tok {
            "f" => Op::Finalize,
            "r" => Op::Reset,
            "u" => Op::Probe,
            _ => Op::Push(unhex(tok.strip_prefix("p:").ok_or("bad op")?)?),
        });
    }
    Ok(v)
}

/// usability probe on a decoder: after reset, a fresh frame (payload fits the buffer) must come out
pub fn probe(d: &mut dyn DynDecoder, cap: Option<usize>, salt: u8) -> Verdict {
    d.reset();
    let n = cap.unwrap_or(6).min(6);
    let q: Vec<u8> = (0..n).map(|i| salt.wrapping_add(i as u8) | 0x20).collect();
    let f = ref_encode(&q);
    let mut log = Log::new();
    feed(d, &f, 0, &mut log);
    let want: Log = vec![(f.len() - 1, TEv::Ok(q.clone()))];
    ensure!(
        log == want,
        "usable-after",
        format!("after reset() the same object decodes a fresh frame: {}", log_str(&want)),
        log_str(&log)
    );
    Ok(())
}

impl PropCase for History {
    fn to_case(&self) -> Case {
        Case::new("history").s("buf", &self.buf.name()).s("ops", &ops_to_text(&self.ops))
    }
    fn from_case(c: &Case) -> Result<Self, String> {
        Ok(History {
            buf: BufKind::parse(c.get("buf")?)?,
            ops: ops_from_text(c.get("ops")?)?,
        })
    }
    fn check(&self, ctx: &mut Ctx) -> Verdict {
        let mut d = new_decoder(self.buf);
        let cap = match self.buf {
            BufKind::Vec => None,
            BufKind::Arr(n) => Some(n),
        };
        let mut nops = 0u64;
        let mut errs = 0u64;
        for (k, op) in self.ops.iter().enumerate() {
            match op {
                Op::Push(bs) => {
                    for b in bs {
                        nops += 1;
                        if let Err(e) = d.push(*b) {
                            errs += 1;
                            ctx.bump(&format!("error_value_then_driven_on:{}", e.kind()));
                        }
                        if nops % 7 == 0 {
                            let st = d.state();
                            let key = crate::rng::mix(&[st.phase as u64, st.aux as u64, st.zero_cache as u64]);
                            ctx.class(key, || format!("state {}", st.phase_name()));
                        }
                    }
                }
                Op::Finalize => {
                    nops += 1;
                    d.finalize();
                    // finalize leaves a decoder that reports nothing pending
                    let again = d.finalize();
                    ensure!(again.is_none(), "finalize-twice", "second finalize() == None", format!("{:?}", again));
                }
                Op::Reset => {
                    nops += 1;
                    d.reset();
                    let again = d.reset();
                    ensure!(again == 0, "reset-twice", "second reset() == 0", format!("{}", again));
                }
                Op::Probe => {
                    probe(d.as_mut(), cap, k as u8)?;
                    ctx.bump("usability_probes");
                }
            }
        }
        probe(d.as_mut(), cap, 0x41)?;
        ctx.bump("usability_probes");
        ctx.maxi("max_ops_on_one_decoder", nops);
        ctx.add("error_values_total", errs);
        let bk = self.buf.name();
        ctx.class_s(&format!("history buffer={}", if matches!(self.buf, BufKind::Arr(n) if n <= 8) { bk } else { self.buf.kind_class().to_string() }));
        if ctx.want_sample("history") {
            let t = ops_to_text(&self.ops);
            ctx.sample("history", || format!("buf={} ops={}", self.buf.name(), if t.len() > 160 { format!("{}..", &t[..160]) } else { t }));
        }
        Ok(())
    }
}

/// counter stress: a long run of one byte (noise or payload), then a frame; parametric so that the
/// replay file stays small
pub struct LongRun {
    /// "noise" = run ‖ frame ; "payload" = frame whose payload is the run ; "body" = START ‖ run (raw) ‖ frame
    pub mode: String,
    pub n: usize,
    pub fill: u8,
    pub buf: BufKind,
}

impl LongRun {
    pub fn stream(&self) -> (Vec<u8>, Vec<u8>) {
        let q = vec![0x10, 0x20, 0x30];
        match self.mode.as_str() {
            "noise" => {
                let mut s = vec![self.fill; self.n];
                s.extend_from_slice(&ref_encode(&q));
                (s, q)
            }
            "payload" => {
                let p = vec![self.fill; self.n];
                (ref_encode(&p), p)
            }
            _ => {
                let mut s = crate::refm::transport::START.to_vec();
                s.extend(std::iter::repeat(self.fill).take(self.n));
                s.extend_from_slice(&ref_encode(&q));
                (s, q)
            }
        }
    }
}

impl PropCase for LongRun {
    fn to_case(&self) -> Case {
        Case::new("longrun")
            .s("mode", &self.mode)
            .n("n", self.n)
            .n("fill", self.fill as usize)
            .s("buf", &self.buf.name())
    }
    fn from_case(c: &Case) -> Result<Self, String> {
        Ok(LongRun {
            mode: c.get("mode")?.to_string(),
            n: c.num("n")?,
            fill: c.num("fill")? as u8,
            buf: BufKind::parse(c.get("buf")?)?,
        })
    }
    fn check(&self, ctx: &mut Ctx) -> Verdict {
        let (s, q) = self.stream();
        let log = run_f1(self.buf, &s);
        // returning normally is the property; additionally the object must still have been usable: with a
        // buffer that can hold the final payload the last frame is delivered
        let fits = match self.buf {
            BufKind::Vec => true,
            BufKind::Arr(n) => n >= q.len(),
        };
        if fits && self.mode != "body" {
            let last_ok = log.iter().rev().find_map(|(p, e)| if let TEv::Ok(m) = e { Some((*p, m.clone())) } else { None });
            ensure!(
                last_ok == Some((s.len() - 1, q.clone())),
                "frame-after-long-run",
                format!("Ok({}) at the last byte {}", hex_short(&q), s.len() - 1),
                format!("{}", log_str(&log))
            );
        }
        // the real encoders on the long payload (growable buffer, iterator encoder polled past its end)
        if self.mode == "payload" {
            let e = run_encode(BufKind::Vec, &q, false);
            ensure!(e.is_ok(), "encode-long-payload", "Ok(frame)", "Err(OutOfMemory)");
            let es = run_encode_streaming(&q, 0, 200);
            ensure!(!es.hit_bound && es.late.is_empty(), "encode_streaming-long-payload", "iterator ends for good", format!("hit_bound={} late={}", es.hit_bound, es.late.len()));
            let _ = run_encode(BufKind::Arr(70000), &q, true);
            let _ = run_encode(BufKind::Arr(65536), &q, true);
        }
        // pull front-ends on the same stream
        if self.n <= 1 << 18 {
            let _ = run_f2(&s, true);
            let _ = run_f3(self.buf, &s, 2);
            let env = ReaderEnv::from_bytes(&s);
            let mut rd = new_reader(&env, Src::Io, RBuf::Kind(self.buf));
            for _ in 0..6 {
                let _ = rd.r.call(Api::Next, Target::Bytes);
            }
        }
        ctx.maxi(&format!("max_{}_run", self.mode), self.n as u64);
        ctx.class_s(&format!(
            "longrun mode={} n={} fill={:02x} buf={}",
            self.mode,
            crate::mon::discard_class(self.n),
            self.fill,
            self.buf.kind_class()
        ));
        ctx.sample("longrun", || format!("{} run of {} x {:02x}, buffer {} -> {} events, no panic", self.mode, self.n, self.fill, self.buf.name(), log.len()));
        Ok(())
    }
}

/// encoders into small capacities; pull front-ends called past the end
pub struct Misc {
    pub s: Vec<u8>,
}

impl PropCase for Misc {
    fn to_case(&self) -> Case {
        Case::new("misc").h("s", &self.s)
    }
    fn from_case(c: &Case) -> Result<Self, String> {
        Ok(Misc { s: c.bytes("s")? })
    }
    fn check(&self, ctx: &mut Ctx) -> Verdict {
        let s = &self.s;
        // (iii) encoders: s as payload into every capacity around the frame length; OOM is a value
        let fl = ref_frame_len(s);
        for &cap in MENU.iter().filter(|c| **c + 24 >= fl && **c <= fl + 8).chain([0usize, 1, 7, 8, 15, 16].iter()) {
            let r = run_encode(BufKind::Arr(cap), s, cap % 2 == 0);
            match r {
                Ok(_) => ctx.bump("encode_ok"),
                Err(()) => ctx.bump("encode_oom_value"),
            }
        }
        let es = run_encode_streaming(s, (s.len() % 3) as u8, 300);
        ensure!(!es.hit_bound, "encode_streaming-ends", "iterator ends", "still yielding after 2|p|+64 items");
        ensure!(
            es.late.is_empty(),
            "encode_streaming-ends",
            "None on each of 300 polls after the end",
            format!("yielded {:02x?}", es.late)
        );
        // the iterator encoder over an unbounded source: size_hint() and a bounded prefix must not panic
        {
            let b = s.first().copied().unwrap_or(0x55);
            let (_h, v) = encode_unbounded_prefix(b, 40);
            let mut exp = crate::refm::transport::START.to_vec();
            let mut run = 0;
            while exp.len() < 40 {
                exp.push(b);
                if b == 0x1b {
                    run += 1;
                    if run == 4 {
                        exp.extend_from_slice(&[0x1b; 4]);
                        run = 0;
                    }
                }
            }
            exp.truncate(40);
            ensure!(v == exp, "encode_streaming-unbounded-source", crate::hexu::hex(&exp), crate::hexu::hex(&v));
        }
        // (iv) s as a stream through F2..F6, readers with read/next mixed and called past EOF
        let _ = run_f2(s, false);
        for b in [BufKind::Vec, BufKind::Arr(0), BufKind::Arr(3), BufKind::Arr(64)] {
            let out = run_f3(b, s, 4);
            ensure!(
                out.late.is_empty(),
                "decode_streaming-past-end",
                "None on further calls after the first None",
                format!("{:?}", out.late)
            );
        }
        let env = ReaderEnv::from_bytes(s);
        let h = crate::rng::hash_bytes(s);
        for (i, src) in [Src::Slice, Src::IterVal, Src::IterRef, Src::Io].iter().enumerate() {
            let rb = match (h as usize + i) % 4 {
                0 => RBuf::Default,
                1 => RBuf::Kind(BufKind::Vec),
                2 => RBuf::Kind(BufKind::Arr(0)),
                _ => RBuf::Kind(BufKind::Arr(16)),
            };
            let mut rd = new_reader(&env, *src, rb);
            let mut past_end = 0;
            for k in 0..s.len() + 8 {
                let api = match (h >> (k % 48)) & 3 {
                    0 => Api::Read,
                    1 => Api::Next,
                    2 => Api::ReadNb,
                    _ => Api::NextNb,
                };
                let target = match (h >> ((k + 7) % 40)) % 3 {
                    0 => Target::Bytes,
                    1 => Target::File,
                    _ => Target::Parser,
                };
                let r = rd.r.call(api, target);
                if matches!(r, ROut::None | ROut::IoErr(IoKind::Eof, 0)) {
                    past_end += 1;
                    if past_end >= 5 {
                        break;
                    }
                }
            }
            ctx.bump("reader_objects_driven_past_eof");
        }
        ctx.class_s(&format!("misc len={}", payload::size_class(s.len())));
        Ok(())
    }
}

fn gen_history(ctx: &mut Ctx, long: bool) -> History {
    let rng = &mut ctx.rng;
    let buf = if rng.chance(1, 4) {
        BufKind::Vec
    } else {
        BufKind::Arr(*rng.pick(MENU))
    };
    let nops = if long { rng.range(200, 2000) } else { rng.range(1, 40) };
    let mut ops = Vec::new();
    for _ in 0..nops {
        match rng.below(20) {
            0 => ops.push(Op::Finalize),
            1 => ops.push(Op::Reset),
            2 => ops.push(Op::Probe),
            3..=8 => ops.push(Op::Push(stream::any_stream(rng))),
            9..=12 => {
                let p = payload::any_payload(rng);
                ops.push(Op::Push(ref_encode(&p)))
            }
            13 | 14 => {
                // a frame cut at a random point (the next op hits the decoder mid-frame)
                let f = ref_encode(&payload::any_payload(rng));
                let c = rng.range(0, f.len());
                ops.push(Op::Push(f[..c].to_vec()))
            }
            _ => ops.push(Op::Push(rng.biased_in(0, 12, &[0x1b, 0x01, 0x1a, 0x00]))),
        }
    }
    History { buf, ops }
}

pub fn run(ctx: &mut Ctx) {
    ctx.journal_every_case(true);
    // every error value is also formatted with Display / Debug (a recursive impl aborts the process)
    format_errors(true);
    // (ii) counter stress - deterministic, in both build profiles
    let mut runs: Vec<(&str, usize, u8)> = Vec::new();
    for n in [255usize, 256, 257, 65534, 65535, 65536, 65537, 65538, 65539, 65540, 131072, 200000] {
        for fill in [0x55u8, 0x1b, 0x00, 0x01] {
            runs.push(("noise", n, fill));
        }
    }
    for n in [256usize, 65535, 65536, 65537, 70000 - 24] {
        for fill in [0x00u8, 0x1b, 0x55] {
            runs.push(("payload", if n > 69000 { 69000 } else { n }, fill));
        }
    }
    for n in [65536usize, 65540, 131072] {
        for fill in [0x00u8, 0x55] {
            runs.push(("body", n, fill));
        }
    }
    runs.push(("payload", (1 << 20) + 4096, 0x37));
    runs.push(("noise", 1 << 20, 0x55));
    runs.push(("noise", 1 << 20, 0x1b));
    if !ctx.quick() {
        runs.push(("noise", 1 << 24, 0x55));
        runs.push(("payload", 1 << 22, 0x00));
        runs.push(("payload", 1 << 22, 0x1b));
    }
    for (i, (mode, n, fill)) in runs.iter().enumerate() {
        if !ctx.mine(i as u64) {
            continue;
        }
        for buf in [BufKind::Vec, BufKind::Arr(70000), BufKind::Arr(3), BufKind::Arr(0)] {
            if *mode == "payload" && buf != BufKind::Vec && *n > 70000 {
                continue;
            }
            ctx.eval(&LongRun {
                mode: mode.to_string(),
                n: *n,
                fill: *fill,
                buf,
            });
        }
    }
    // (i) histories
    let n = ctx.count(40_000, 2_000_000);
    for _ in 0..n {
        let h = gen_history(ctx, false);
        ctx.eval(&h);
    }
    let n = ctx.count(160, 4_000);
    for _ in 0..n {
        let h = gen_history(ctx, true);
        ctx.eval(&h);
    }
    // every menu capacity gets at least a few histories
    for (i, &cap) in MENU.iter().enumerate() {
        if !ctx.mine(i as u64) {
            continue;
        }
        for _ in 0..3 {
            let mut h = gen_history(ctx, false);
            h.buf = BufKind::Arr(cap);
            ctx.eval(&h);
            ctx.bump("floor:every-menu-capacity");
        }
    }
    // (iii)+(iv)
    let n = ctx.count(20_000, 600_000);
    for i in 0..n {
        let s = if i % 2 == 0 {
            stream::any_stream(&mut ctx.rng)
        } else {
            payload::any_payload(&mut ctx.rng)
        };
        ctx.eval(&Misc { s });
    }
}

pub const FLOORS: &[&str] = &[
    "floor:every-menu-capacity",
    "error_value_then_driven_on:Discarded",
    "error_value_then_driven_on:InvalidEsc",
    "error_value_then_driven_on:InvalidMessage",
    "error_value_then_driven_on:OutOfMemory",
    "usability_probes",
    "encode_oom_value",
];

pub const RULE: &str = "cases = (i) random call histories on one decoder (push_byte over adversarial streams / frames / cut frames, finalize, reset, \
usability probes) for every buffer kind and every menu capacity incl. 0; (ii) deterministic counter stress: runs of one byte of length 255..2^20 (2^24 thorough) as \
noise before a frame, as payload, and as raw frame body; (iii) both encoders into capacities around the frame length; (iv) all pull front-ends with read/next/_nb and all \
target types mixed, driven past end of input. Every call runs under catch_unwind in a build with integer-overflow checks and debug assertions (and again in a plain release build); \
each case is journalled first so that an abort or hang is attributed to its input. Distinct/non-trivial = distinct decoder-state classes visited (hook), buffer classes and long-run classes";
