//! Shared parser-input families for C04 / C06 / C09 / C13: valid files, corruptions with stale and with
//! recomputed checksums, length manipulations at every TLF position, truncations, splices, random bytes.

use crate::core::Ctx;
use crate::gen::corrupt::{self, Corrupted};
use crate::gen::smlgen;
use crate::refm::sml::{encode_canonical, encode_file, Encoded, Knobs};
use crate::rng::Rng;

pub struct PIn {
    pub bytes: Vec<u8>,
    pub family: &'static str,
    pub crc_fixed: bool,
    pub what: String,
}

fn from_c(c: Corrupted) -> PIn {
    PIn {
        bytes: c.bytes,
        family: c.class,
        crc_fixed: c.crc_fixed,
        what: c.what,
    }
}

pub fn gen_encoded(rng: &mut Rng, small: bool) -> Encoded {
    let ast = if rng.chance(1, 8) {
        let n = *rng.pick(&[0usize, 1, 2, 3, 4, 8, 16, 17]);
        if rng.chance(1, 3) {
            smlgen::gen_min_list_file(n * 4, rng.chance(1, 2))
        } else {
            smlgen::gen_tiny_list_file(rng, n)
        }
    } else if small {
        smlgen::gen_small_file(rng)
    } else if rng.chance(1, 3) {
        let n = rng.range(0, 5);
        smlgen::gen_typical(rng, n)
    } else {
        smlgen::gen_file(rng, 3, 20)
    };
    let knobs = Knobs::random(rng);
    encode_file(&ast, &knobs, rng)
}

/// one random input from the mixed families
pub fn random_input(ctx: &mut Ctx) -> PIn {
    let rng = &mut ctx.rng;
    match rng.below(21) {
        0 | 1 => {
            let e = gen_encoded(rng, false);
            PIn {
                bytes: e.bytes,
                family: "valid",
                crc_fixed: false,
                what: "valid file".into(),
            }
        }
        2 => {
            // real meter file, possibly corrupted
            let real = crate::corpus::payloads();
            if real.is_empty() {
                return PIn {
                    bytes: Vec::new(),
                    family: "empty",
                    crc_fixed: false,
                    what: "empty".into(),
                };
            }
            let mut b = rng.pick(real).clone();
            if rng.chance(1, 2) && !b.is_empty() {
                let i = rng.below(b.len());
                b[i] ^= 1 << rng.below(8);
                PIn {
                    bytes: b,
                    family: "real-flip",
                    crc_fixed: false,
                    what: format!("real meter file, flip@{}", i),
                }
            } else {
                PIn {
                    bytes: b,
                    family: "real",
                    crc_fixed: false,
                    what: "real meter file".into(),
                }
            }
        }
        3 => {
            let n = rng.range(0, 40);
            PIn {
                bytes: rng.biased_bytes(n, &[0x76, 0x77, 0x72, 0x62, 0x63, 0x65, 0x01, 0x00, 0x07, 0x71]),
                family: "random-bytes",
                crc_fixed: false,
                what: "random bytes".into(),
            }
        }
        4 => {
            // double corruption
            let e = gen_encoded(rng, true);
            let c1 = corrupt::random_corruption(&e, rng);
            let mut b = c1.bytes;
            if !b.is_empty() {
                let i = rng.below(b.len());
                b[i] ^= 1 << rng.below(8);
            }
            PIn {
                bytes: b,
                family: "double",
                crc_fixed: false,
                what: format!("{} + flip", c1.what),
            }
        }
        5 => {
            // splice of two files
            let a = gen_encoded(rng, true);
            let b = gen_encoded(rng, true);
            let ca = rng.range(0, a.bytes.len());
            let cb = rng.range(0, b.bytes.len());
            let mut s = a.bytes[..ca].to_vec();
            s.extend_from_slice(&b.bytes[cb..]);
            PIn {
                bytes: s,
                family: "splice",
                crc_fixed: false,
                what: format!("splice {}|{}", ca, cb),
            }
        }
        8 => {
            // two independent faults: a stale checksum in one message plus a structural fault or a truncation
            // in a LATER message
            let e = gen_encoded(rng, true);
            let nm = e.map.msgs.len();
            if nm < 2 {
                return from_c(corrupt::random_corruption(&e, rng));
            }
            let i = rng.below(nm - 1);
            let j = rng.range(i + 1, nm - 1);
            let mi = e.map.msgs[i];
            let mj = e.map.msgs[j];
            let mut b = e.bytes.clone();
            if mi.crc_size == 3 {
                b[mi.crc_off + 1 + rng.below(2)] ^= 1 << rng.below(8);
            } else {
                b[mi.crc_off + 1] ^= 1 << rng.below(8);
            }
            match rng.below(4) {
                0 => b.truncate(rng.range(mj.start, mj.end.saturating_sub(1))),
                1 => b[mj.end_off] = 0x01,
                2 => {
                    let k = rng.range(mj.start, mj.crc_off.saturating_sub(1).max(mj.start));
                    b[k] ^= 1 << rng.below(8);
                }
                _ => b[mj.start] = *rng.pick(&[0x75u8, 0x77, 0x72, 0x06]),
            }
            PIn {
                bytes: b,
                family: "stale-crc+later-fault",
                crc_fixed: false,
                what: format!("stale crc in message {} + fault in message {}", i, j),
            }
        }
        6 | 7 => {
            let e = gen_encoded(rng, true);
            let faults = corrupt::structural_faults(&e, rng);
            if faults.is_empty() {
                return from_c(corrupt::random_corruption(&e, rng));
            }
            let k = rng.below(faults.len());
            from_c(faults.into_iter().nth(k).unwrap())
        }
        9..=20 | _ => {
            let small = rng_small(rng);
            let e = gen_encoded(rng, small);
            from_c(corrupt::random_corruption(&e, rng))
        }
    }
}

fn rng_small(rng: &mut Rng) -> bool {
    rng.chance(2, 3)
}

/// exhaustive-per-offset corruptions of one small file: every offset x {3 flips, delete, insert,
/// truncate}, each stale and fixed; plus every TLF substitution at every TLF position (stale and fixed)
pub fn exhaustive_for(e: &Encoded, rng: &mut Rng) -> Vec<PIn> {
    let mut v = Vec::new();
    let n = e.bytes.len();
    for off in 0..n {
        for fix in [false, true] {
            for mask in [0x01u8, 0x10, 0x80] {
                v.push(from_c(corrupt::flip(e, off, mask, fix)));
            }
            v.push(from_c(corrupt::delete(e, off, 1, fix)));
            v.push(from_c(corrupt::insert(e, off, &[*rng.pick(&[0x01u8, 0x00, 0x62, 0x76])], fix)));
        }
        v.push(from_c(corrupt::truncate(e, off)));
    }
    for ti in 0..e.map.tlfs.len() {
        for (tl, cls) in corrupt::tlf_substitutions(e, ti) {
            for fix in [false, true] {
                v.push(from_c(corrupt::replace_tlf(e, ti, &tl, fix, cls)));
            }
        }
    }
    for c in corrupt::structural_faults(e, rng) {
        v.push(from_c(c));
    }
    // every primitive field replaced by every well-formed substitute field, checksum recomputed
    let subs = corrupt::substitute_fields();
    for ti in 0..e.map.tlfs.len() {
        let t = e.map.tlfs[ti];
        if t.ty == crate::refm::tlf::RTy::List || t.role == crate::refm::sml::Role::Crc {
            continue;
        }
        for f in &subs {
            v.push(from_c(corrupt::replace_field(e, ti, f, true)));
        }
    }
    for ti in 0..e.map.tlfs.len() {
        for f in &subs {
            if let Some(c) = corrupt::replace_time_struct(e, ti, f, true) {
                v.push(from_c(c));
            }
        }
    }
    // a (possibly huge) declared list length with the input ending 0..6 bytes behind the TLF or at an entry boundary
    for ti in 0..e.map.tlfs.len() {
        if e.map.tlfs[ti].role != crate::refm::sml::Role::ValList {
            continue;
        }
        for (tl, cls) in corrupt::tlf_substitutions(e, ti) {
            if cls != "huge" && cls != "len+1" {
                continue;
            }
            let c = corrupt::replace_tlf(e, ti, &tl, false, cls);
            let end_tlf = e.map.tlfs[ti].off + tl.len();
            let delta = tl.len() as isize - e.map.tlfs[ti].size as isize;
            let mut cuts: Vec<usize> = (0..=6).map(|x| end_tlf + x).collect();
            cuts.extend(e.map.entry_offs.iter().filter(|o| **o > e.map.tlfs[ti].off).map(|o| (*o as isize + delta) as usize));
            for cut in cuts {
                if cut <= c.bytes.len() {
                    v.push(PIn { bytes: c.bytes[..cut].to_vec(), family: "huge-then-eof", crc_fixed: false, what: format!("{} then eof@{}", c.what, cut) });
                }
            }
        }
    }
    v.push(from_c(corrupt::extend(e, &[0x00])));
    v.push(from_c(corrupt::extend(e, &[0x76])));
    v.push(from_c(corrupt::extend(e, &e.bytes[..n.min(7)])));
    v
}

/// a compact deterministic file used for per-offset work: open + list(2 entries) + close
pub fn small_fixed_file(rng: &mut Rng) -> Encoded {
    let ast = smlgen::gen_typical(rng, 2);
    encode_canonical(&ast)
}
