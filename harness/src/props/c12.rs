//! C12 - type-length fields and primitive values are decoded exactly or rejected.
//! Reference TLF / integer decoder against the parsers, observed through message skeletons with the bytes
//! under test at a probe position (the streaming parser exposes fields before the message CRC is checked).

use crate::conv::{run_complete, run_streaming, SBody, SEv};
use crate::core::{Ctx, Fail, PropCase, Verdict};
use crate::hexu::{hex, hex_short, Case};
use crate::refm::crc::crc16_x25;
use crate::refm::sml::*;
use crate::refm::tlf::{build_tlf_raw, ref_tlf, ty_bits, RTy, TlfErr};

/// probe positions
#[derive(Clone, Copy, Debug, PartialEq, Eq)]
pub enum Pos {
    /// transaction_id: octet strings -> observed length and bytes
    Tid,
    /// the value-list TLF of a get-list response -> num_vals
    ListLen,
    /// the value of a list entry -> variant and value
    Value,
    /// group_no (u8)
    GroupNo,
    /// message body tag (u32)
    BodyTag,
    /// scaler of a list entry (i8)
    Scaler,
    /// status of a list entry (u8..u64 by width)
    Status,
    /// a time field (list(2) or the bare u32 workaround)
    Time,
}

impl Pos {
    fn name(&self) -> &'static str {
        match self {
            Pos::Tid => "tid",
            Pos::ListLen => "listlen",
            Pos::Value => "value",
            Pos::GroupNo => "groupno",
            Pos::BodyTag => "bodytag",
            Pos::Scaler => "scaler",
            Pos::Status => "status",
            Pos::Time => "time",
        }
    }
    fn parse(s: &str) -> Result<Pos, String> {
        Ok(match s {
            "tid" => Pos::Tid,
            "listlen" => Pos::ListLen,
            "value" => Pos::Value,
            "groupno" => Pos::GroupNo,
            "bodytag" => Pos::BodyTag,
            "scaler" => Pos::Scaler,
            "status" => Pos::Status,
            "time" => Pos::Time,
            _ => return Err(format!("bad probe position {}", s)),
        })
    }
}

pub struct Probe {
    pub pos: Pos,
    /// the leading bytes under test; the field is completed deterministically (see `complete_field`)
    pub lead: Vec<u8>,
}

pub const FILL_CAP: usize = 72 * 1024;
/// list-length probes carry that many real entries at most
pub const LIST_CAP: usize = 4200;

/// deterministic continuation pattern: low nibble position-dependent, type bits 000, no continuation bit -
/// so an unterminated TLF terminates at once and shifted data slices are visible
fn pat(i: usize) -> u8 {
    ((i * 5 + 3) & 0x0f) as u8
}

/// lead ‖ pattern, long enough to hold the whole field as the *reference* reads it (capped)
pub fn complete_field(lead: &[u8]) -> Vec<u8> {
    let mut f = lead.to_vec();
    // enough pattern to terminate any TLF the lead may have left open
    for i in 0..24 {
        f.push(pat(lead.len() + i));
    }
    let need = match ref_tlf(&f) {
        Ok(t) => {
            if t.ty == RTy::List {
                // nested content of a list is part of the lead (directed probes), never invented
                t.size.max(lead.len())
            } else {
                t.size + (t.len as usize).min(FILL_CAP)
            }
        }
        Err(_) => lead.len(),
    };
    // a lead longer than the field its own TLF declares would leave junk behind the field; drop it
    // (the probe then coincides with the one for the shorter lead)
    while f.len() < need {
        f.push(pat(f.len()));
    }
    f.truncate(need);
    f
}

const CLOSE_TAIL: [u8; 10] = [0x62, 0x00, 0x62, 0x00, 0x72, 0x63, 0x02, 0x01, 0x71, 0x01];

fn with_crc(mut m: Vec<u8>) -> Vec<u8> {
    let c = crc16_x25(&m);
    m.push(0x63);
    m.push((c & 0xff) as u8);
    m.push((c >> 8) as u8);
    m.push(0x00);
    m
}

/// builds the skeleton; returns (input, offset of the field under test)
fn skeleton(pos: Pos, field: &[u8]) -> (Vec<u8>, usize) {
    let mut m = vec![0x76u8];
    let off;
    match pos {
        Pos::Tid => {
            off = m.len();
            m.extend_from_slice(field);
            m.extend_from_slice(&CLOSE_TAIL);
        }
        Pos::GroupNo => {
            m.extend_from_slice(&[0x03, 0xa1, 0xa2]);
            off = m.len();
            m.extend_from_slice(field);
            m.extend_from_slice(&CLOSE_TAIL[2..]);
        }
        Pos::BodyTag => {
            m.extend_from_slice(&[0x03, 0xa1, 0xa2, 0x62, 0x00, 0x62, 0x00, 0x72]);
            off = m.len();
            m.extend_from_slice(field);
            m.extend_from_slice(&[0x71, 0x01]);
        }
        Pos::ListLen => {
            m.extend_from_slice(&[0x03, 0xa1, 0xa2, 0x62, 0x00, 0x62, 0x00, 0x72, 0x63, 0x07, 0x01, 0x77, 0x01, 0x03, 0xb1, 0xb2, 0x01, 0x01]);
            off = m.len();
            m.extend_from_slice(field);
            // as many minimal entries as the REFERENCE reads from the list TLF (capped: beyond the cap the
            // message is truncated and the expected outcome is an error for any parser), then the list trailer -
            // a complete message, so the announcement is visible no matter when a parser emits its events
            if let Ok(t) = ref_tlf(field) {
                if t.ty == RTy::List && (t.len as usize) <= LIST_CAP {
                    for _ in 0..t.len {
                        m.extend_from_slice(&[0x77, 0x01, 0x01, 0x01, 0x01, 0x01, 0x01, 0x01]);
                    }
                    m.extend_from_slice(&[0x01, 0x01]);
                }
            }
        }
        Pos::Value | Pos::Scaler | Pos::Status | Pos::Time => {
            m.extend_from_slice(&[0x03, 0xa1, 0xa2, 0x62, 0x00, 0x62, 0x00, 0x72, 0x63, 0x07, 0x01, 0x77, 0x01, 0x03, 0xb1, 0xb2, 0x01, 0x01, 0x71]);
            // one entry: 77 objname status valTime unit scaler value signature
            m.extend_from_slice(&[0x77, 0x03, 0xc1, 0xc2]);
            match pos {
                Pos::Status => {
                    off = m.len();
                    m.extend_from_slice(field);
                    m.extend_from_slice(&[0x01, 0x01, 0x01, 0x62, 0x2a, 0x01]);
                }
                Pos::Time => {
                    m.push(0x01);
                    off = m.len();
                    m.extend_from_slice(field);
                    m.extend_from_slice(&[0x01, 0x01, 0x62, 0x2a, 0x01]);
                }
                Pos::Scaler => {
                    m.extend_from_slice(&[0x01, 0x01, 0x01]);
                    off = m.len();
                    m.extend_from_slice(field);
                    m.extend_from_slice(&[0x62, 0x2a, 0x01]);
                }
                _ => {
                    m.extend_from_slice(&[0x01, 0x01, 0x01, 0x01]);
                    off = m.len();
                    m.extend_from_slice(field);
                    m.push(0x01);
                }
            }
            // list trailer
            m.extend_from_slice(&[0x01, 0x01]);
        }
    }
    (with_crc(m), off)
}

#[derive(Debug, Clone, PartialEq)]
enum Seen {
    Bytes(Vec<u8>),
    Num(u64),
    SNum(i64),
    Val(AValue),
    Stat(AStatus),
    Time(ATime),
    Error,
    /// either this number or an error (incomplete probe message)
    NumOrError(u64),
    /// the field was accepted but is not visible at this position (should not happen)
    Hidden,
}

/// what the streaming parser exposes at the probe position
fn observe(pos: Pos, x: &[u8]) -> Seen {
    let st = run_streaming(x, 0);
    let first = st.events.first();
    match pos {
        Pos::Tid | Pos::GroupNo | Pos::BodyTag | Pos::ListLen => match first {
            Some(SEv::Start { transaction_id, group_no, body, .. }) => match pos {
                Pos::Tid => Seen::Bytes(transaction_id.clone()),
                Pos::GroupNo => Seen::Num(*group_no as u64),
                Pos::BodyTag => match body {
                    SBody::Close(_) => Seen::Num(0x0201),
                    SBody::Open(_) => Seen::Num(0x0101),
                    SBody::ListStart(_) => Seen::Num(0x0701),
                },
                _ => match body {
                    SBody::ListStart(s) => Seen::Num(s.num_vals as u64),
                    _ => Seen::Hidden,
                },
            },
            _ => Seen::Error,
        },
        _ => match (first, st.events.get(1)) {
            (Some(SEv::Start { .. }), Some(SEv::Entry(e))) => match pos {
                Pos::Value => Seen::Val(e.value.clone()),
                Pos::Scaler => match e.scaler {
                    Some(s) => Seen::SNum(s as i64),
                    None => Seen::Hidden,
                },
                Pos::Status => match &e.status {
                    Some(s) => Seen::Stat(s.clone()),
                    None => Seen::Hidden,
                },
                _ => match &e.val_time {
                    Some(t) => Seen::Time(t.clone()),
                    None => Seen::Hidden,
                },
            },
            _ => Seen::Error,
        },
    }
}

/// what the reference decoder says must be visible there
fn expect(pos: Pos, x: &[u8], off: usize) -> Seen {
    let rest = &x[off..];
    // a leading 0x01 at an optional position means "absent"; probes at optional positions avoid it
    match pos {
        Pos::Tid => match ref_octet(rest) {
            Ok((b, _)) => Seen::Bytes(b),
            Err(_) => Seen::Error,
        },
        Pos::GroupNo => match ref_uint(rest, 1) {
            Ok((v, _)) => Seen::Num(v),
            Err(_) => Seen::Error,
        },
        Pos::BodyTag => match ref_uint(rest, 4) {
            Ok((v, n)) => {
                // only the close tag leads to a message start with the skeleton's continuation
                if v == 0x0201 && rest[n..].starts_with(&[0x71, 0x01]) {
                    Seen::Num(v)
                } else {
                    Seen::Error
                }
            }
            Err(_) => Seen::Error,
        },
        Pos::ListLen => match ref_tlf(rest) {
            Ok(t) if t.ty == RTy::List && (t.len as usize) <= LIST_CAP => Seen::Num(t.len as u64),
            // more entries announced than the probe carries: the message is incomplete. A parser that emits the
            // announcement before reading the entries shows the (correct) number, one that validates first reports
            // an error - both are fine, a different number is not
            Ok(t) if t.ty == RTy::List => Seen::NumOrError(t.len as u64),
            _ => Seen::Error,
        },
        Pos::Value => match ref_value(rest) {
            Ok((v, n)) => {
                // the entry must also be completed by the skeleton's signature byte
                if rest.get(n) == Some(&0x01) {
                    Seen::Val(v)
                } else {
                    Seen::Error
                }
            }
            Err(_) => Seen::Error,
        },
        Pos::Scaler => match ref_sint(rest, 1) {
            Ok((v, _)) => Seen::SNum(v),
            Err(_) => Seen::Error,
        },
        Pos::Status => match ref_status(rest) {
            Ok((s, _)) => Seen::Stat(s),
            Err(_) => Seen::Error,
        },
        Pos::Time => {
            // reuse the reference value reader's time reading through a list-typed value wrapper
            let mut w = vec![0x72, 0x62, 0x01];
            w.extend_from_slice(rest);
            match ref_value(&w) {
                Ok((AValue::List(t), _)) => Seen::Time(t),
                _ => Seen::Error,
            }
        }
    }
}

impl PropCase for Probe {
    fn to_case(&self) -> Case {
        Case::new("probe").s("pos", self.pos.name()).h("lead", &self.lead)
    }
    fn from_case(c: &Case) -> Result<Self, String> {
        Ok(Probe { pos: Pos::parse(c.get("pos")?)?, lead: c.bytes("lead")? })
    }
    fn check(&self, ctx: &mut Ctx) -> Verdict {
        // optional positions: a leading 0x01 means "absent", which is not a TLF probe
        if matches!(self.pos, Pos::Scaler | Pos::Status | Pos::Time) && self.lead.first() == Some(&0x01) {
            return Ok(());
        }
        let mut field = complete_field(&self.lead);
        if self.pos == Pos::ListLen {
            // only the list TLF itself is under test here: bytes of the lead behind a complete list TLF would be
            // junk in front of the entries (the probe then coincides with the one for the shorter lead)
            if let Ok(t) = ref_tlf(&field) {
                if t.ty == RTy::List {
                    field.truncate(t.size);
                }
            }
        }
        let (x, off) = skeleton(self.pos, &field);
        let want = expect(self.pos, &x, off);
        let got = observe(self.pos, &x);
        let tl = ref_tlf(&x[off..]);
        let matches = match (&want, &got) {
            (Seen::NumOrError(n), Seen::Num(m)) => n == m,
            (Seen::NumOrError(_), Seen::Error) => true,
            (w, g) => w == g,
        };
        if !matches {
            let sub = match (&want, &got) {
                (Seen::Error, _) => "accepts-what-must-be-rejected",
                (_, Seen::Error) => "rejects-what-must-be-accepted",
                _ => "wrong-value",
            };
            return Err(Fail::new(
                &format!("{}/{}", sub, self.pos.name()),
                format!("{:?} (reference reading of the field {} : TLF {:?})", want, hex_short(&field), tl),
                format!("{:?}", got),
            ));
        }
        // the allocating parser on the same bytes with a valid checksum: when the reference accepts the whole
        // input the content must be equal, otherwise it must be rejected
        {
            let r = ref_parse(&x);
            let c = run_complete(&x);
            match (&r, &c) {
                (Ok(a), Ok(b)) if a == b => {}
                (Err(_), Err(_)) => {}
                _ => {
                    return Err(Fail::new(
                        &format!("complete/{}", self.pos.name()),
                        format!("{:?}", r.as_ref().map(|f| f.messages.len())),
                        format!("{:?} for field {}", c.as_ref().map(|f| f.messages.len()).map_err(|e| e.name()), hex_short(&field)),
                    ));
                }
            }
        }
        // observed class
        let oc = match &tl {
            Ok(t) => format!("ok:{:?}:size{}", t.ty, t.size.min(5)),
            Err(e) => format!("{:?}", e),
        };
        let seen_c = match &got {
            Seen::Error => "error",
            _ => "value",
        };
        let key = crate::rng::hash_str(&format!("{}{}{}", self.pos.name(), oc, seen_c));
        ctx.class(key, || format!("pos={} tlf={} -> {}", self.pos.name(), oc, seen_c));
        ctx.bump(&format!("floor:pos:{}:{}", self.pos.name(), seen_c));
        match &tl {
            Err(TlfErr::Overflow) => ctx.bump("floor:tlf:overflow-rejected"),
            Err(TlfErr::Underflow) => ctx.bump("floor:tlf:underflow-rejected"),
            Err(TlfErr::ReservedType) | Err(TlfErr::ReservedBool) => ctx.bump("floor:tlf:reserved-rejected"),
            Err(TlfErr::NextByteType) => ctx.bump("floor:tlf:nextbyte-rejected"),
            Ok(t) if t.size >= 2 && got != Seen::Error => ctx.bump("floor:tlf:multibyte-accepted"),
            _ => {}
        }
        if let Seen::Val(v) = &got {
            ctx.bump(&format!("floor:value:{}", v.variant_name()));
        }
        let sk = format!("{}-{}", self.pos.name(), seen_c);
        if ctx.want_sample(&sk) {
            ctx.sample(&sk, || format!("pos={} field={} (TLF {:?}) -> {:?}", self.pos.name(), hex_short(&field), tl, got));
        }
        Ok(())
    }
}

/// Position-generic probe: in a fixed valid file that uses every field of the grammar, the whole primitive
/// field at TLF index `ti` (offset map of the reference encoder) is replaced by `lead` completed to the length
/// its own TLF declares; checksums are recomputed. Oracle: the reference parser (accept/reject + content).
pub struct Anywhere {
    pub ti: usize,
    pub lead: Vec<u8>,
}

pub fn anywhere_base() -> Encoded {
    let f = AFile {
        messages: vec![
            AMsg {
                transaction_id: vec![0xa1, 0xa2, 0xa3],
                group_no: 1,
                abort_on_error: 2,
                body: ABody::Open(AOpen {
                    codepage: Some(vec![0x63, 0x70]),
                    client_id: Some(vec![0x63, 0x6c]),
                    req_file_id: vec![0x72, 0x66],
                    server_id: vec![0x73, 0x76],
                    ref_time: Some(ATime::SecIndex(0x0102_0304)),
                    sml_version: Some(1),
                }),
            },
            AMsg {
                transaction_id: vec![0xb1],
                group_no: 3,
                abort_on_error: 4,
                body: ABody::GetList(AGetList {
                    client_id: Some(vec![0x11]),
                    server_id: vec![0x12, 0x13],
                    list_name: Some(vec![0x14]),
                    act_sensor_time: Some(ATime::SecIndex(5)),
                    val_list: vec![
                        AEntry {
                            obj_name: vec![1, 0, 1, 8, 0, 255],
                            status: Some(AStatus::S16(0x0182)),
                            val_time: Some(ATime::SecIndex(0x0a0b)),
                            unit: Some(30),
                            scaler: Some(-1),
                            value: AValue::I32(-70000),
                            value_signature: Some(vec![0x51, 0x52]),
                        },
                        AEntry {
                            obj_name: vec![1, 0, 2, 8, 0, 255],
                            status: None,
                            val_time: None,
                            unit: None,
                            scaler: None,
                            value: AValue::List(ATime::SecIndex(9)),
                            value_signature: None,
                        },
                    ],
                    list_signature: Some(vec![0x61]),
                    act_gateway_time: Some(ATime::SecIndex(0xffff_fffe)),
                }),
            },
            AMsg {
                transaction_id: vec![0xc1, 0xc2],
                group_no: 0,
                abort_on_error: 0,
                body: ABody::Close(AClose { global_signature: Some(vec![0x71, 0x72, 0x73]) }),
            },
        ],
    };
    encode_canonical(&f)
}

impl PropCase for Anywhere {
    fn to_case(&self) -> Case {
        Case::new("anywhere").n("ti", self.ti).h("lead", &self.lead)
    }
    fn from_case(c: &Case) -> Result<Self, String> {
        Ok(Anywhere { ti: c.num("ti")?, lead: c.bytes("lead")? })
    }
    fn check(&self, ctx: &mut Ctx) -> Verdict {
        let base = anywhere_base();
        if self.ti >= base.map.tlfs.len() {
            return Ok(());
        }
        let t = base.map.tlfs[self.ti];
        let field = complete_field(&self.lead);
        let c = if t.ty == RTy::List {
            crate::gen::corrupt::replace_tlf(&base, self.ti, &field, true, "anywhere")
        } else {
            crate::gen::corrupt::replace_field(&base, self.ti, &field, true)
        };
        let x = c.bytes;
        let r = ref_parse(&x);
        let got = run_complete(&x);
        let st = run_streaming(&x, 0);
        let st_res = match st.first_err {
            None => crate::conv::reassemble(&st.events, true).map_err(|_| ()),
            Some(_) => Err(()),
        };
        let ok_c = match (&r, &got) {
            (Ok(a), Ok(b)) => a == b,
            (Err(_), Err(_)) => true,
            _ => false,
        };
        let ok_s = match (&r, &st_res) {
            (Ok(a), Ok(b)) => a == b,
            (Err(_), Err(_)) => true,
            _ => false,
        };
        if !ok_c || !ok_s {
            return Err(Fail::new(
                &format!("anywhere/{:?}/{}", t.role, if !ok_c { "complete" } else { "streaming" }),
                format!("reference reading with the field {} at the {:?} position: {:?}", hex_short(&field), t.role, r.as_ref().map(|f| f.messages.len())),
                format!("complete: {:?} ; streaming: err={:?} events={}", got.as_ref().map(|f| f.messages.len()).map_err(|e| e.name()), st.first_err.map(|e| e.name()), st.events.len()),
            ));
        }
        let oc = if r.is_ok() { "accepted" } else { "rejected" };
        ctx.class_s(&format!("anywhere role={:?} {}", t.role, oc));
        ctx.bump(&format!("floor:anywhere:{}", oc));
        if ctx.want_sample("anywhere") {
            ctx.sample("anywhere", || format!("role={:?} field={} -> {} by reference and by both parsers", t.role, hex_short(&field), oc));
        }
        Ok(())
    }
}

fn directed_tlfs() -> Vec<Vec<u8>> {
    let mut v = Vec::new();
    let mut vals: Vec<u128> = Vec::new();
    for k in 0..=16u128 {
        vals.push((1u128 << 32) - 1 - k);
        vals.push((1u128 << 32) + k);
    }
    vals.extend([(1u128 << 64) + 6, (1u128 << 64) + 1, (1u128 << 64) + 2, (1u128 << 64) + 7, (1u128 << 68) + 2, (1u128 << 96) + 7, (1u128 << 124) + 6]);
    vals.extend([1u128 << 36, (1u128 << 44) - 1, 1u128 << 31, (1u128 << 28) + 5, 255, 256, 4095, 4096, 65535, 65536, 0, 1, 2, 3]);
    for ty in [RTy::Octet, RTy::Int, RTy::Uint, RTy::List] {
        for &val in &vals {
            let mut n = 1;
            while n < 32 && val >> (4 * n) != 0 {
                n += 1;
            }
            for extra in 0..=3 {
                if let Some(t) = build_tlf_raw(ty_bits(ty), val, n + extra) {
                    v.push(t);
                }
            }
        }
    }
    // very long TLFs: hundreds of leading zero groups in front of a small value (valid), and values smaller
    // than the TLF's own size (underflow)
    for ty in [RTy::Octet, RTy::Int, RTy::Uint, RTy::List] {
        for nb in [13usize, 16, 64, 254, 255, 256, 257, 258, 300, 1000, 4096] {
            for val in [0u128, 1, 2, (nb as u128).saturating_sub(1), nb as u128, nb as u128 + 1, nb as u128 + 2, nb as u128 + 4, nb as u128 + 8, nb as u128 + 9] {
                if let Some(t) = build_tlf_raw(ty_bits(ty), val, nb) {
                    v.push(t);
                }
            }
        }
    }
    // every continuation byte position with non-zero type bits
    for size in 2..=5usize {
        for bad_at in 1..size {
            for tb in 1..8u8 {
                let mut t = build_tlf_raw(0, 0x10 + size as u128, size).unwrap();
                t[bad_at] |= tb << 4;
                v.push(t);
            }
        }
    }
    // numeric TLFs declaring widths just beyond 2^16 (1..9 mod 2^16), backed by that many bytes
    for tyv in [RTy::Int, RTy::Uint, RTy::Octet] {
        for w in [65535usize, 65536, 65537, 65538, 65540, 65544, 65545] {
            v.push(crate::refm::tlf::build_tlf(tyv, w, 0));
        }
    }
    // numeric TLFs of three bytes declaring 256*k + w data bytes (w in 1..=8)
    for tyv in [RTy::Int, RTy::Uint] {
        for k in 1..=3usize {
            for w in [1usize, 2, 4, 8, 9] {
                v.push(crate::refm::tlf::build_tlf(tyv, 256 * k + w, 0));
            }
        }
    }
    // reserved first bytes, with and without continuation
    for tb in [1u8, 2, 3] {
        for more in [0u8, 0x80] {
            for len in [0u8, 1, 5, 15] {
                v.push(vec![more | tb << 4 | len, 0x02]);
            }
        }
    }
    // boolean with continuation
    v.push(vec![0xc2, 0x02, 0x01]);
    v.push(vec![0xc0, 0x02]);
    v
}

pub fn run(ctx: &mut Ctx) {
    // ---- exhaustive: all 1- and 2-byte leads at every position; all 3-byte leads at tid / listlen / value
    let full3 = !ctx.quick() && ctx.profile == "chk";
    let mut n_ex = 0u64;
    for pos in [Pos::Tid, Pos::ListLen, Pos::Value, Pos::GroupNo, Pos::BodyTag, Pos::Scaler, Pos::Status, Pos::Time] {
        for v in 0..(256u32 + 65536) {
            if !ctx.mine(v as u64) {
                continue;
            }
            let lead = if v < 256 { vec![v as u8] } else { vec![((v - 256) >> 8) as u8, (v - 256) as u8] };
            ctx.eval(&Probe { pos, lead });
            n_ex += 1;
        }
    }
    ctx.exhaustive_space("all 1- and 2-byte leading sequences at each of the 8 probe positions", n_ex);
    if full3 {
        let mut n3 = 0u64;
        for pos in [Pos::Tid, Pos::ListLen, Pos::Value, Pos::GroupNo, Pos::BodyTag, Pos::Scaler, Pos::Status, Pos::Time] {
            for v in 0..(1u32 << 24) {
                if !ctx.mine(v as u64) {
                    continue;
                }
                ctx.eval(&Probe { pos, lead: vec![(v >> 16) as u8, (v >> 8) as u8, v as u8] });
                n3 += 1;
            }
        }
        ctx.exhaustive_space("all 2^24 3-byte leading sequences at each of the 8 probe positions", n3);
    } else {
        let n = ctx.count(600_000, 6_000_000);
        for i in 0..n {
            let pos = [Pos::Tid, Pos::ListLen, Pos::Value][i % 3];
            let v = ctx.rng.next_u64();
            ctx.eval(&Probe { pos, lead: vec![(v >> 16) as u8, (v >> 8) as u8, v as u8] });
        }
    }
    // ---- position-generic probes at every TLF position of a file that uses every field of the grammar
    {
        let ntl = anywhere_base().map.tlfs.len();
        let all2 = !ctx.quick();
        let mut n_any = 0u64;
        for ti in 0..ntl {
            for v in 0..256u32 {
                if ctx.mine((ti as u64) * 256 + v as u64) {
                    ctx.eval(&Anywhere { ti, lead: vec![v as u8] });
                    n_any += 1;
                }
            }
            if all2 {
                for v in 0..65536u32 {
                    if ctx.mine(v as u64 + ti as u64) {
                        ctx.eval(&Anywhere { ti, lead: vec![(v >> 8) as u8, v as u8] });
                        n_any += 1;
                    }
                }
            }
        }
        ctx.exhaustive_space(
            if all2 { "every 1- and 2-byte lead substituted at every TLF position of the all-fields file" } else { "every 1-byte lead substituted at every TLF position of the all-fields file" },
            n_any,
        );
        if !all2 {
            let n = ctx.count(60_000, 0);
            for _ in 0..n {
                let ti = ctx.rng.below(ntl);
                let v = ctx.rng.next_u64();
                let lead = if ctx.rng.chance(2, 3) { vec![(v >> 8) as u8, v as u8] } else { vec![(v >> 16) as u8, (v >> 8) as u8, v as u8] };
                ctx.eval(&Anywhere { ti, lead });
            }
        }
        for (i, t) in directed_tlfs().into_iter().enumerate() {
            if ctx.mine(i as u64) {
                let ti = ctx.rng.below(ntl);
                ctx.eval(&Anywhere { ti, lead: t });
            }
        }
    }
    // ---- directed: TLFs of up to 12 bytes around 2^32, leading zero groups, bad continuation bytes
    for (i, t) in directed_tlfs().into_iter().enumerate() {
        if !ctx.mine(i as u64) {
            continue;
        }
        for pos in [Pos::Tid, Pos::ListLen, Pos::Value, Pos::Status, Pos::Time] {
            ctx.eval(&Probe { pos, lead: t.clone() });
        }
    }
    // ---- integers: widths 1..8 x signed/unsigned x leading byte patterns (exhaustive for widths 1-2)
    let mut k = 0u64;
    for signed in [false, true] {
        let tyb: u8 = if signed { 0x50 } else { 0x60 };
        for w in 1..=9usize {
            for lb in [0x00u8, 0x01, 0x7f, 0x80, 0xfe, 0xff] {
                for rep in 0..if ctx.quick() { 8 } else { 200 } {
                    k += 1;
                    if !ctx.mine(k) {
                        continue;
                    }
                    let mut lead = vec![tyb | (w as u8 + 1)];
                    lead.push(lb);
                    let rest = ctx.rng.bytes(w.saturating_sub(1));
                    lead.extend_from_slice(&rest);
                    let _ = rep;
                    for pos in [Pos::Value, Pos::Status, Pos::Scaler, Pos::GroupNo, Pos::Time] {
                        ctx.eval(&Probe { pos, lead: lead.clone() });
                    }
                    // same value behind a 2-byte TLF
                    let mut lead2 = vec![0x80 | tyb, (w as u8 + 2) & 0x0f];
                    lead2.extend_from_slice(&lead[1..]);
                    if w + 2 < 16 {
                        ctx.eval(&Probe { pos: Pos::Value, lead: lead2 });
                    }
                }
            }
        }
    }
    // extreme values of every width: leading byte x all-zero / all-one / ..01 / ..fe remainders
    for signed in [false, true] {
        let tyb: u8 = if signed { 0x50 } else { 0x60 };
        for w in 1..=8usize {
            for lb in [0x00u8, 0x01, 0x7f, 0x80, 0x81, 0xfe, 0xff] {
                for (ri, rest) in [vec![0x00u8; w - 1], vec![0xff; w - 1], { let mut r = vec![0x00u8; w - 1]; if let Some(l) = r.last_mut() { *l = 1; } r }, { let mut r = vec![0xffu8; w - 1]; if let Some(l) = r.last_mut() { *l = 0xfe; } r }].into_iter().enumerate() {
                    k += 1;
                    if !ctx.mine(k) {
                        continue;
                    }
                    let _ = ri;
                    let mut lead = vec![tyb | (w as u8 + 1), lb];
                    lead.extend_from_slice(&rest);
                    for pos in [Pos::Value, Pos::Status, Pos::Scaler, Pos::GroupNo, Pos::Time] {
                        ctx.eval(&Probe { pos, lead: lead.clone() });
                    }
                }
            }
        }
    }
    // booleans: all 256 bytes
    for b in 0..=255u8 {
        if ctx.mine(b as u64) {
            ctx.eval(&Probe { pos: Pos::Value, lead: vec![0x42, b] });
        }
    }
    // list-typed values and times (nested content)
    if ctx.shard == 0 {
        for lead in [
            vec![0x72, 0x62, 0x01, 0x65, 0x00, 0x00, 0x01, 0x02],
            vec![0x72, 0x62, 0x01, 0x72, 0x62, 0x01, 0x65, 0xff, 0xff, 0xff, 0xff],
            vec![0x72, 0x62, 0x01, 0x72, 0x62, 0x01, 0x62, 0x09],
            vec![0x72, 0x62, 0x02, 0x65, 0x00, 0x00, 0x01, 0x02],
            vec![0xf0, 0x02, 0x62, 0x01, 0x65, 0x00, 0x00, 0x01, 0x02],
            vec![0x72, 0x63, 0x00, 0x01, 0x65, 0x00, 0x00, 0x01, 0x02],
        ] {
            ctx.eval(&Probe { pos: Pos::Value, lead: lead.clone() });
        }
        for lead in [
            vec![0x63, 0x02, 0x01],
            vec![0x65, 0x00, 0x01, 0x02, 0x01],
            vec![0x64, 0x01, 0x02, 0x01],
            vec![0x65, 0xff, 0xff, 0x02, 0x01],
            vec![0x65, 0x80, 0x00, 0x02, 0x01],
            vec![0x64, 0x00, 0x02, 0x01],
            vec![0x65, 0x00, 0x00, 0x02, 0x01],
            vec![0x66, 0x00, 0x00, 0x00, 0x02, 0x01],
            vec![0x80 | 0x60, 0x04, 0x02, 0x01],
            vec![0x63, 0x01, 0x01],
            vec![0x63, 0x07, 0x01],
            vec![0x63, 0x02, 0x02],
            vec![0x53, 0x02, 0x01],
            vec![0x62, 0x01],
        ] {
            ctx.eval(&Probe { pos: Pos::BodyTag, lead: lead.clone() });
        }
        for lead in [
            vec![0x65, 0x01, 0x02, 0x03, 0x04],
            vec![0xe0, 0x06, 0x01, 0x02, 0x03, 0x04],
            vec![0x72, 0x62, 0x01, 0x65, 0x01, 0x02, 0x03, 0x04],
            vec![0x72, 0x62, 0x01, 0x62, 0x04],
            vec![0x72, 0x62, 0x01, 0x63, 0x03, 0x04],
            vec![0x72, 0x62, 0x01, 0x64, 0x02, 0x03, 0x04],
            vec![0x72, 0x62, 0x02, 0x65, 0x01, 0x02, 0x03, 0x04],
            vec![0x64, 0x01, 0x02, 0x03],
            vec![0x66, 0x01, 0x02, 0x03, 0x04, 0x05],
        ] {
            ctx.eval(&Probe { pos: Pos::Time, lead: lead.clone() });
        }
    }
    // strings of every length 0..300 (and some long ones) with position-dependent content
    for len in (0..=300usize).chain([4094, 4095, 4096, 65535, 65536, 70000]) {
        if !ctx.mine(len as u64) {
            continue;
        }
        for extra in 0..3 {
            let t = crate::refm::tlf::build_tlf(RTy::Octet, len, extra);
            ctx.eval(&Probe { pos: Pos::Tid, lead: t.clone() });
            ctx.eval(&Probe { pos: Pos::Value, lead: t });
        }
    }
    let _ = hex(&[]);
}

pub fn floors() -> Vec<String> {
    let mut v: Vec<String> = vec![
        "floor:tlf:overflow-rejected".into(),
        "floor:tlf:underflow-rejected".into(),
        "floor:tlf:reserved-rejected".into(),
        "floor:tlf:nextbyte-rejected".into(),
        "floor:tlf:multibyte-accepted".into(),
        "floor:anywhere:accepted".into(),
        "floor:anywhere:rejected".into(),
    ];
    for p in ["tid", "listlen", "value", "groupno", "bodytag", "scaler", "status", "time"] {
        v.push(format!("floor:pos:{}:value", p));
        v.push(format!("floor:pos:{}:error", p));
    }
    for n in ["Bool", "Bytes", "I8", "I16", "I32", "I64", "U8", "U16", "U32", "U64", "List"] {
        v.push(format!("floor:value:{}", n));
    }
    v
}

pub const RULE: &str = "cases = (probe position, leading bytes): a message skeleton carries the bytes under test at the transaction-id, list-length, entry-value, group-no, body-tag, scaler, status or time position, completed deterministically \
to the length the REFERENCE TLF decoder prescribes (capped at 72 KiB, beyond that the expected outcome is an error). Exhaustive: every 1- and 2-byte leading sequence at all 8 positions; thorough: all 2^24 3-byte sequences at all 8 positions (quick: 2.4 M sampled at the tid / list-length / value positions). \
Directed: TLFs of up to 12 bytes with nibble values 2^32-1-k .. 2^32+k (k<=16), 2^36, 2^44-1, with 0..3 leading zero groups; every continuation byte with non-zero type bits; reserved first bytes; booleans all 256 bytes; \
integers of width 1..9 x signed/unsigned x leading byte in {00,01,7f,80,fe,ff} at value / status / scaler / group-no / time positions; strings of every length 0..300 and up to 70000 with position-dependent content; nested list-typed values and both time encodings. \
Oracle: value <=> value with equal content and variant, error <=> error (which error is not compared); the same bytes with a valid checksum go through complete::parse against the reference parser. \
Position-generic probes: in a valid file that uses every field of the grammar (offset map of the reference encoder) the field at every TLF position is replaced by every 1-byte (thorough: and every 2-byte) lead, completed, checksums recomputed; oracle = reference parser (accept/reject + content) for both parsers. \
Distinct/non-trivial = distinct (position, reference TLF outcome [type, TLF size | error class], value/error) tuples and (grammar role, accepted/rejected) pairs";
