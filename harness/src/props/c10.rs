//! C10 - end to end through SmlReader. Expected-trace monitor on generated transmissions plus a
//! differential comparison with hand composition (Decoder + complete::parse / streaming::Parser).

use crate::conv::{reassemble, run_complete, run_streaming};
use crate::core::{Ctx, Fail, PropCase, Verdict};
use crate::ensure;
use crate::fe::*;
use crate::gen::{smlgen, stream};
use crate::hexu::{hex, hex_short, unhex, Case};
use crate::refm::sml::{encode_file, ref_parse, AFile, Knobs};
use crate::refm::transport::{is_clean_noise, ref_encode};

pub struct Trans {
    /// SML payloads (encoded files), in order
    pub files: Vec<Vec<u8>>,
    /// noise strings g0..gk (files.len()+1 entries)
    pub noise: Vec<Vec<u8>>,
    pub src: Src,
    pub rbuf: RBuf,
    /// per-call schedule, cycled: (api, target) encoded as two letters, e.g. "nb" = next/Bytes
    pub sched: String,
}

fn sched_at(s: &str, k: usize) -> (Api, Target) {
    let b = s.as_bytes();
    let n = b.len() / 2;
    let i = (k % n.max(1)) * 2;
    let api = if b.get(i) == Some(&b'r') { Api::Read } else { Api::Next };
    let t = match b.get(i + 1) {
        Some(b'f') => Target::File,
        Some(b'p') => Target::Parser,
        _ => Target::Bytes,
    };
    (api, t)
}

#[derive(Debug, Clone, PartialEq)]
enum Exp {
    Discard(usize),
    Deliver(usize),
    EofPending(usize),
    End,
}

impl PropCase for Trans {
    fn to_case(&self) -> Case {
        let f: Vec<String> = self.files.iter().map(|x| hex(x)).collect();
        let g: Vec<String> = self.noise.iter().map(|x| hex(x)).collect();
        Case::new("trans")
            .s("files", &f.join(","))
            .s("noise", &g.join(","))
            .s("src", self.src.name())
            .s("rbuf", &self.rbuf.name())
            .s("sched", &self.sched)
    }
    fn from_case(c: &Case) -> Result<Self, String> {
        let split = |t: &str| -> Result<Vec<Vec<u8>>, String> {
            if t.is_empty() {
                return Ok(Vec::new());
            }
            t.split(',').map(unhex).collect()
        };
        let files = split(c.get_or("files", ""))?;
        let mut noise = split(c.get_or("noise", ""))?;
        // an empty noise list entry is lost by split on empty strings; normalise to files+1 entries
        while noise.len() < files.len() + 1 {
            noise.push(Vec::new());
        }
        Ok(Trans {
            files,
            noise,
            src: Src::parse(c.get("src")?)?,
            rbuf: RBuf::parse(c.get("rbuf")?)?,
            sched: c.get("sched")?.to_string(),
        })
    }
    fn check(&self, ctx: &mut Ctx) -> Verdict {
        let k = self.files.len();
        // preconditions re-checked by the monitor
        for g in &self.noise {
            if !is_clean_noise(g) {
                ctx.bump("skipped:noise-not-clean");
                return Ok(());
            }
        }
        // abstract content of each file by the *reference* parser (files are generated, so this is the AST
        // they were encoded from)
        let asts: Vec<AFile> = match self.files.iter().map(|x| ref_parse(x)).collect::<Result<Vec<_>, _>>() {
            Ok(a) => a,
            Err(_) => {
                ctx.bump("skipped:file-not-valid-by-reference");
                return Ok(());
            }
        };
        // the transmission: each file framed by the transport encoder
        let mut s: Vec<u8> = Vec::new();
        let mut frame_end = Vec::new();
        let mut start_end = Vec::new();
        for i in 0..k {
            s.extend_from_slice(&self.noise[i]);
            let f = match run_encode(BufKind::Vec, &self.files[i], i % 2 == 0) {
                Ok(f) => f,
                Err(()) => return Err(Fail::new("encode", "Ok(frame)", "Err(OutOfMemory)")),
            };
            if f != ref_encode(&self.files[i]) {
                ctx.bump("encoder_differs_from_spec(see C07)");
            }
            start_end.push(s.len() + 8);
            s.extend_from_slice(&f);
            frame_end.push(s.len());
        }
        s.extend_from_slice(&self.noise[k]);
        // expected sequence
        let mut exp: Vec<(Exp, Option<usize>)> = Vec::new();
        for i in 0..k {
            if !self.noise[i].is_empty() {
                // (where a discarded-bytes report surfaces is not prescribed: no position expectation)
                exp.push((Exp::Discard(self.noise[i].len()), None));
            }
            exp.push((Exp::Deliver(i), Some(frame_end[i])));
        }
        if !self.noise[k].is_empty() {
            exp.push((Exp::EofPending(self.noise[k].len()), Some(s.len())));
        }
        for _ in 0..5 {
            exp.push((Exp::End, Some(s.len())));
        }
        // ---- the reader under test
        let env = ReaderEnv::from_bytes(&s);
        let mut rd = new_reader(&env, self.src, self.rbuf);
        let mut observed: Vec<String> = Vec::new();
        for (ci, (e, pos)) in exp.iter().enumerate() {
            let (api, target) = sched_at(&self.sched, ci);
            let out = rd.r.call(api, target);
            observed.push(format!("{:?}/{:?}:{}", api, target, out.short()));
            let ok = match (e, &out) {
                (Exp::Discard(n), ROut::DecodeErr(DErr::Discarded(m))) => n == m,
                (Exp::Deliver(i), ROut::Bytes(b)) => target == Target::Bytes && *b == self.files[*i],
                (Exp::Deliver(i), ROut::File(Ok(f))) => target == Target::File && *f == asts[*i],
                (Exp::Deliver(i), ROut::Events(run)) => {
                    target == Target::Parser
                        && run.first_err.is_none()
                        && run.late_items.is_empty()
                        && !run.hit_item_bound
                        && reassemble(&run.events, true).ok().as_ref() == Some(&asts[*i])
                }
                (Exp::EofPending(n), ROut::IoErr(IoKind::Eof, m)) => n == m,
                (Exp::End, ROut::None) => api == Api::Next,
                (Exp::End, ROut::IoErr(IoKind::Eof, 0)) => api == Api::Read,
                _ => false,
            };
            let describe = |e: &Exp| match e {
                Exp::Discard(n) => format!("DecodeErr(DiscardedBytes({}))", n),
                Exp::Deliver(i) => format!("file #{} ({} bytes) as {:?}", i, self.files[*i].len(), target),
                Exp::EofPending(n) => format!("IoErr(Eof, {})", n),
                Exp::End => "None (next) / IoErr(Eof, 0) (read)".to_string(),
            };
            ensure!(
                ok,
                &format!("trace/{}", self.src.name()),
                format!("call #{} ({:?}/{:?}) yields {}", ci, api, target, describe(e)),
                format!("{} ; calls so far: {:?} (buffer {})", out.short(), observed, self.rbuf.name())
            );
            if let (Some(want), Some(got)) = (pos, (rd.pulled)()) {
                ensure!(
                    *want == got,
                    &format!("position/{}", self.src.name()),
                    format!("after call #{} exactly {} bytes have been pulled from the source (no read-ahead, end of input signalled when all bytes are consumed)", ci, want),
                    format!("{} bytes pulled", got)
                );
            }
        }
        // ---- hand composition: Decoder + parsers must give the same results
        let hand = run_f1(BufKind::Vec, &s);
        let mut hi = 0;
        for (e, _) in exp.iter() {
            match e {
                Exp::Discard(n) => {
                    ensure!(
                        matches!(hand.get(hi), Some((_, TEv::Err(DErr::Discarded(m)))) if m == n),
                        "hand-composition",
                        format!("Decoder reports DiscardedBytes({})", n),
                        format!("{:?}", hand.get(hi))
                    );
                    hi += 1;
                }
                Exp::Deliver(i) => {
                    let bytes = match hand.get(hi) {
                        Some((_, TEv::Ok(b))) => b.clone(),
                        other => return Err(Fail::new("hand-composition", format!("Decoder delivers file #{}", i), format!("{:?}", other))),
                    };
                    hi += 1;
                    let a = run_complete(&bytes);
                    let st = run_streaming(&bytes, 1);
                    ensure!(
                        a.as_ref().ok() == Some(&asts[*i]) && st.first_err.is_none() && reassemble(&st.events, true).ok().as_ref() == Some(&asts[*i]),
                        "hand-composition",
                        format!("Decoder + parsers give file #{}", i),
                        format!("complete={:?} streaming err={:?}", a.as_ref().err(), st.first_err)
                    );
                }
                Exp::EofPending(n) => {
                    ensure!(
                        matches!(hand.get(hi), Some((_, TEv::Err(DErr::Discarded(m)))) if m == n),
                        "hand-composition",
                        format!("finalize() reports DiscardedBytes({})", n),
                        format!("{:?}", hand.get(hi))
                    );
                    hi += 1;
                }
                Exp::End => {}
            }
        }
        ensure!(hi == hand.len(), "hand-composition", "no further results", log_str(&hand));
        // ---- observed classes
        let tails: Vec<String> = self.noise.iter().map(|g| stream::classify_noise_tail(g)).collect();
        let mut tset = tails.clone();
        tset.sort();
        tset.dedup();
        let sk = crate::rng::hash_str(&self.sched) % 7;
        ctx.class_s(&format!("src={} buf={} k={} sched#{}", self.src.name(), match self.rbuf { RBuf::Default => "default", RBuf::Kind(BufKind::Vec) => "vec", _ => "arr" }, k.min(4), sk));
        for t in &tset {
            ctx.class_s(&format!("noise tail {} ({})", t, self.src.name()));
        }
        ctx.bump(&format!("floor:src:{}", self.src.name()));
        ctx.bump(&format!("floor:buf:{}", match self.rbuf { RBuf::Default => "default", RBuf::Kind(BufKind::Vec) => "vec", _ => "arr" }));
        for (ci, _) in exp.iter().enumerate().take(k * 2 + 1) {
            let (a, t) = sched_at(&self.sched, ci);
            ctx.bump(&format!("floor:call:{:?}/{:?}", a, t));
        }
        if !self.noise[k].is_empty() {
            ctx.bump("floor:trailing-noise");
        }
        if ctx.want_sample(self.src.name()) {
            ctx.sample(self.src.name(), || format!("k={} noise={:?} transmission={} -> {:?}", k, self.noise.iter().map(|g| hex_short(g)).collect::<Vec<_>>(), hex_short(&s), observed));
        }
        Ok(())
    }
}

fn gen_sched(ctx: &mut Ctx) -> String {
    let n = ctx.rng.range(1, 6);
    let mut s = String::new();
    for _ in 0..n {
        s.push(*ctx.rng.pick(&['r', 'n']));
        s.push(*ctx.rng.pick(&['b', 'f', 'p']));
    }
    s
}

pub fn run(ctx: &mut Ctx) {
    let tails = stream::all_noise_tails();
    let real = crate::corpus::payloads();
    let n = ctx.count(40_000, 2_000_000);
    for i in 0..n {
        let k = if i % 20 == 0 { 0 } else { ctx.rng.range(1, 6) };
        let mut files = Vec::new();
        for _ in 0..k {
            if !real.is_empty() && ctx.rng.chance(1, 6) {
                let p = ctx.rng.pick(real).clone();
                if ref_parse(&p).is_ok() {
                    files.push(p);
                    continue;
                }
            }
            let ast = if ctx.rng.chance(1, 3) {
                let ne = ctx.rng.range(0, 6);
                smlgen::gen_typical(&mut ctx.rng, ne)
            } else {
                smlgen::gen_file(&mut ctx.rng, 3, 20)
            };
            let knobs = Knobs::random(&mut ctx.rng);
            files.push(encode_file(&ast, &knobs, &mut ctx.rng).bytes);
        }
        let mut noise = Vec::new();
        for j in 0..=k {
            let t = if ctx.rng.chance(1, 3) { stream::NoiseTail::Empty } else { *ctx.rng.pick(&tails) };
            let l = ctx.rng.range(0, 30);
            let mut g = stream::noise(&mut ctx.rng, t, l);
            // noise directly after a frame must not start in a way that extends that frame: it cannot,
            // the decoder is idle after the last byte; nothing to adjust. Keep j for clarity.
            let _ = j;
            if ctx.rng.chance(1, 400) {
                g = vec![0x55; 70000];
            }
            noise.push(g);
        }
        let maxfile = files.iter().map(|f| f.len()).max().unwrap_or(0);
        let src = *ctx.rng.pick(&[Src::Slice, Src::IterVal, Src::IterRef, Src::Io]);
        let rbuf = match ctx.rng.below(3) {
            0 if maxfile <= 8192 => RBuf::Default,
            1 => match menu_at_least(maxfile) {
                Some(c) => RBuf::Kind(BufKind::Arr(c)),
                None => RBuf::Kind(BufKind::Vec),
            },
            _ => RBuf::Kind(BufKind::Vec),
        };
        let sched = gen_sched(ctx);
        ctx.eval(&Trans { files, noise, src, rbuf, sched });
    }
}

pub fn floors() -> Vec<String> {
    let mut v = Vec::new();
    for s in ["slice", "iterval", "iterref", "io"] {
        v.push(format!("floor:src:{}", s));
    }
    for b in ["default", "vec", "arr"] {
        v.push(format!("floor:buf:{}", b));
    }
    for a in ["Read", "Next"] {
        for t in ["Bytes", "File", "Parser"] {
            v.push(format!("floor:call:{}/{}", a, t));
        }
    }
    v.push("floor:trailing-noise".into());
    v
}

pub const RULE: &str = "cases = transmissions g0 | frame(F1) | g1 | .. | frame(Fk) | gk with k in 0..6: files are random abstract SML files (every value variant, optional masks, lists across the 15/16 boundary) \
under random encoding knobs plus real meter files, framed by the transport encoder; noise strings of every tail class (cleanliness re-checked), occasionally 70000 bytes. \
Reader over slice / by-value iterator / by-reference iterator / io::Read with the default, an ArrayBuf<N> and the Vec buffer, driven by a random per-call schedule of read|next x DecodedBytes|File|Parser. \
Expected: DiscardedBytes(|g|) then the file (bytes equal / AST equal / events reassemble to the AST), trailing noise as IoErr(Eof,|gk|) once, then None / IoErr(Eof,0) on 5 further calls; \
the counting source asserts no read-ahead and that end of input is signalled exactly when all bytes are consumed; hand composition (Decoder + both parsers) must agree. \
Distinct/non-trivial = distinct (source, buffer kind, k capped 4, schedule class, set of observed noise tail classes) tuples";
