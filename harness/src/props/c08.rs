//! C08 - resynchronisation. Expected-trace monitor on noise+frame and cut-frame+frame over constructed
//! idle-decoder histories.

use crate::core::{Ctx, PropCase, Verdict};
use crate::ensure;
use crate::fe::*;
use crate::gen::stream;
use crate::gen::payload;
use crate::hexu::{hex_short, Case};
use crate::refm::transport::{is_clean_noise, ref_encode, START};

/// how the decoder became idle
#[derive(Clone, Debug)]
pub enum Hist {
    New,
    AfterFrame(Vec<u8>),
    /// fed a stream that ends in the named error event
    AfterError(Vec<u8>, &'static str),
    /// reset() / finalize() after an arbitrary prefix
    AfterReset(Vec<u8>),
    AfterFinalize(Vec<u8>),
}

impl Hist {
    fn name(&self) -> &'static str {
        match self {
            Hist::New => "new",
            Hist::AfterFrame(_) => "after-frame",
            Hist::AfterError(_, k) => k,
            Hist::AfterReset(_) => "after-reset",
            Hist::AfterFinalize(_) => "after-finalize",
        }
    }
    fn prefix(&self) -> &[u8] {
        match self {
            Hist::New => &[],
            Hist::AfterFrame(p) | Hist::AfterError(p, _) | Hist::AfterReset(p) | Hist::AfterFinalize(p) => p,
        }
    }
}

pub struct Resync {
    pub hist: Hist,
    pub buf: BufKind,
    /// noise (first clause) or a cut-off frame prefix (second clause)
    pub lead: Vec<u8>,
    pub lead_is_cut: bool,
    /// parametric long noise: (n, fill, tail) instead of `lead`
    pub long: Option<(usize, u8, Vec<u8>)>,
    pub m: Vec<u8>,
}

impl Resync {
    fn lead_bytes(&self) -> Vec<u8> {
        match &self.long {
            Some((n, fill, tail)) => {
                let mut g = vec![*fill; *n];
                g.extend_from_slice(tail);
                g
            }
            None => self.lead.clone(),
        }
    }
}

fn hist_kind_static(s: &str) -> &'static str {
    match s {
        "after-InvalidMessage" => "after-InvalidMessage",
        "after-InvalidEsc" => "after-InvalidEsc",
        "after-OutOfMemory" => "after-OutOfMemory",
        _ => "after-error",
    }
}

impl PropCase for Resync {
    fn to_case(&self) -> Case {
        let mut c = Case::new("resync")
            .s("hist", self.hist.name())
            .h("pre", self.hist.prefix())
            .s("buf", &self.buf.name())
            .n("cut", self.lead_is_cut as usize)
            .h("m", &self.m);
        match &self.long {
            Some((n, fill, tail)) => c = c.n("ln", *n).n("lfill", *fill as usize).h("ltail", tail),
            None => c = c.h("lead", &self.lead),
        }
        c
    }
    fn from_case(c: &Case) -> Result<Self, String> {
        let pre = c.bytes("pre")?;
        let hist = match c.get("hist")? {
            "new" => Hist::New,
            "after-frame" => Hist::AfterFrame(pre),
            "after-reset" => Hist::AfterReset(pre),
            "after-finalize" => Hist::AfterFinalize(pre),
            k => Hist::AfterError(pre, hist_kind_static(k)),
        };
        let long = if c.kv.contains_key("ln") {
            Some((c.num("ln")?, c.num("lfill")? as u8, c.bytes("ltail")?))
        } else {
            None
        };
        Ok(Resync {
            hist,
            buf: BufKind::parse(c.get("buf")?)?,
            lead: if long.is_some() { Vec::new() } else { c.bytes("lead")? },
            lead_is_cut: c.num("cut")? != 0,
            long,
            m: c.bytes("m")?,
        })
    }
    fn check(&self, ctx: &mut Ctx) -> Verdict {
        let lead = self.lead_bytes();
        // the monitor re-checks the precondition itself before the case counts
        if !self.lead_is_cut && !is_clean_noise(&lead) {
            ctx.bump("skipped:noise-contains-start");
            return Ok(());
        }
        let mut d = new_decoder(self.buf);
        // ---- construct the idle history and confirm it from what was observed
        let mut pre_log = Log::new();
        feed(d.as_mut(), self.hist.prefix(), 0, &mut pre_log);
        match &self.hist {
            Hist::New => {}
            Hist::AfterFrame(_) => {
                if !matches!(pre_log.last(), Some((p, TEv::Ok(_))) if *p + 1 == self.hist.prefix().len()) {
                    ctx.bump("skipped:history-not-confirmed");
                    return Ok(());
                }
            }
            Hist::AfterError(_, k) => {
                let ok = match pre_log.last() {
                    Some((p, TEv::Err(e))) if *p + 1 == self.hist.prefix().len() => {
                        format!("after-{}", e.kind()) == *k && !matches!(e, DErr::Discarded(_))
                    }
                    _ => false,
                };
                if !ok {
                    ctx.bump("skipped:history-not-confirmed");
                    return Ok(());
                }
            }
            Hist::AfterReset(_) => {
                d.reset();
            }
            Hist::AfterFinalize(_) => {
                d.finalize();
            }
        }
        // ---- the claim
        let frame = ref_encode(&self.m);
        let mut s = lead.clone();
        s.extend_from_slice(&frame);
        let mut want = Log::new();
        if !lead.is_empty() {
            want.push((lead.len() + 7, TEv::Err(DErr::Discarded(lead.len()))));
        }
        want.push((s.len() - 1, TEv::Ok(self.m.clone())));
        let mut got = Log::new();
        feed(d.as_mut(), &s, 0, &mut got);
        let sub = if self.lead_is_cut { "cut+frame/F1" } else { "noise+frame/F1" };
        // where the discarded-bytes report surfaces is not prescribed by the property; the payload must be
        // reported at the frame's last byte (C01)
        let same = got.len() == want.len()
            && got.iter().zip(want.iter()).all(|((pg, eg), (pw, ew))| eg == ew && (pg == pw || matches!(eg, TEv::Err(DErr::Discarded(_)))))
            && got.windows(2).all(|w| w[0].0 <= w[1].0);
        ensure!(
            same,
            sub,
            log_str(&want),
            format!("{} (history {}, lead ..{}, buffer {})", log_str(&got), self.hist.name(), hex_short(&lead[lead.len().saturating_sub(12)..]), self.buf.name())
        );
        let fin = d.finalize();
        ensure!(fin.is_none(), sub, "finalize() == None after the delivered frame", format!("{:?}", fin));
        // ---- fresh pull front-ends see the same
        if matches!(self.hist, Hist::New) && s.len() <= 1 << 17 {
            let wl: Vec<TEv> = want.iter().map(|(_, e)| e.clone()).collect();
            let f2 = run_f2(&s, false);
            ensure!(f2 == wl, "noise+frame/F2", evs_str(&wl), evs_str(&f2));
            let env = ReaderEnv::from_bytes(&s);
            let src = if s.len() % 2 == 0 { Src::Slice } else { Src::Io };
            let mut rd = new_reader(&env, src, RBuf::Kind(self.buf));
            let mut outs = Vec::new();
            for _ in 0..want.len() + 1 {
                outs.push(rd.r.call(Api::Next, Target::Bytes));
            }
            let mut wr: Vec<ROut> = want
                .iter()
                .map(|(_, e)| match e {
                    TEv::Ok(m) => ROut::Bytes(m.clone()),
                    TEv::Err(e) => ROut::DecodeErr(e.clone()),
                })
                .collect();
            wr.push(ROut::None);
            ensure!(
                outs == wr,
                "noise+frame/reader",
                format!("{:?}", wr.iter().map(|o| o.short()).collect::<Vec<_>>()),
                format!("{:?}", outs.iter().map(|o| o.short()).collect::<Vec<_>>())
            );
        }
        // ---- observed classes
        let tail = if self.lead_is_cut { "cut".to_string() } else { stream::classify_noise_tail(&lead) };
        let lc = if lead.is_empty() { "0" } else { crate::mon::discard_class(lead.len()) };
        let hn = self.hist.name();
        ctx.class_s(&format!("hist={} tail={} |lead|{}", hn, tail, lc));
        ctx.bump(&format!("floor:hist:{}", hn));
        ctx.bump(&format!("floor:tail:{}", tail));
        ctx.maxi("max_noise_len", lead.len() as u64);
        if ctx.want_sample(&tail) {
            ctx.sample(&tail, || format!("history={} lead={} payload={} -> {}", hn, hex_short(&lead), hex_short(&self.m), log_str(&got)));
        }
        Ok(())
    }
}

fn gen_hist(ctx: &mut Ctx, buf: BufKind) -> Hist {
    let rng = &mut ctx.rng;
    match rng.below(8) {
        0 => Hist::New,
        1 => {
            let q = small_payload(rng, buf);
            Hist::AfterFrame(ref_encode(&q))
        }
        2 => {
            // bad CRC
            let mut f = ref_encode(&small_payload(rng, buf));
            let n = f.len();
            f[n - 1] ^= 0x40;
            Hist::AfterError(f, "after-InvalidMessage")
        }
        3 => {
            let mut f = START.to_vec();
            f.extend_from_slice(&rng.biased_in(0, 4, &[0x00, 0x55]));
            f.extend_from_slice(&[0x1b, 0x1b, 0x1b, 0x1b]);
            match rng.below(3) {
                0 => f.extend_from_slice(&[0x02, rng.byte(), rng.byte(), rng.byte()]),
                1 => {
                    let k = rng.range(1, 3);
                    let mut pl = vec![0x02u8; 4 - k];
                    pl.extend(std::iter::repeat(0x1b).take(k));
                    f.extend_from_slice(&pl);
                }
                _ => f.extend_from_slice(&[0x1b, *rng.pick(&[0x55u8, 0x1b]), 0x55, *rng.pick(&[0x1b, 0x00])]),
            }
            Hist::AfterError(f, "after-InvalidEsc")
        }
        4 => {
            // out of memory: only with a fixed buffer; cut the stream right at the error
            if let BufKind::Arr(n) = buf {
                // zero bytes at and behind the capacity limit: the overflow may hit while zeros are being withheld
                let zeros_at_limit = rng.chance(1, 2);
                let q: Vec<u8> = (0..n + 1 + rng.below(5)).map(|i| if zeros_at_limit && i + 1 >= n && rng.chance(1, 2) { 0 } else { 0x21 + (i % 64) as u8 }).collect();
                let f = ref_encode(&q);
                let log = crate::core::guarded(|| {
                    let mut d = new_decoder(buf);
                    let mut log = Log::new();
                    feed(d.as_mut(), &f, 0, &mut log);
                    log
                })
                .unwrap_or_default();
                if let Some((p, TEv::Err(DErr::Oom))) = log.first() {
                    return Hist::AfterError(f[..=*p].to_vec(), "after-OutOfMemory");
                }
            }
            Hist::New
        }
        5 | 6 => {
            let s = stream::any_stream(rng);
            let c = rng.range(0, s.len());
            if rng.chance(1, 2) {
                Hist::AfterReset(s[..c].to_vec())
            } else {
                Hist::AfterFinalize(s[..c].to_vec())
            }
        }
        _ => {
            let f = ref_encode(&payload::any_payload(rng));
            let c = rng.range(0, f.len());
            Hist::AfterReset(f[..c].to_vec())
        }
    }
}

fn small_payload(rng: &mut crate::rng::Rng, buf: BufKind) -> Vec<u8> {
    let max = match buf {
        BufKind::Vec => 40,
        BufKind::Arr(n) => n.min(40),
    };
    let mut p = payload::any_payload(rng);
    p.truncate(max);
    p
}

pub fn run(ctx: &mut Ctx) {
    let tails = stream::all_noise_tails();
    let hists = 8;
    // deterministic product: every history kind x every noise tail class
    let mut idx = 0u64;
    for ti in 0..tails.len() {
        for _h in 0..hists * 3 {
            idx += 1;
            if !ctx.mine(idx) {
                continue;
            }
            let buf = if idx % 3 == 0 { BufKind::Vec } else { BufKind::Arr(*ctx.rng.pick(&[8usize, 16, 32, 64, 256])) };
            let hist = gen_hist(ctx, buf);
            let body = ctx.rng.range(0, 24);
            let lead = stream::noise(&mut ctx.rng, tails[ti], body);
            let m = small_payload(&mut ctx.rng, buf);
            ctx.eval(&Resync { hist, buf, lead, lead_is_cut: false, long: None, m });
        }
    }
    // random noise + frame
    let n = ctx.count(150_000, 6_000_000);
    for _ in 0..n {
        let buf = if ctx.rng.chance(1, 3) { BufKind::Vec } else { BufKind::Arr(*ctx.rng.pick(&[4usize, 8, 16, 32, 64, 256, 1024])) };
        let hist = gen_hist(ctx, buf);
        let t = *ctx.rng.pick(&tails);
        let body = ctx.rng.range(0, 40);
        let lead = stream::noise(&mut ctx.rng, t, body);
        let m = small_payload(&mut ctx.rng, buf);
        ctx.eval(&Resync { hist, buf, lead, lead_is_cut: false, long: None, m });
    }
    // cut-off frame at every safe point + complete frame
    let n = ctx.count(60_000, 2_000_000);
    for _ in 0..n {
        let buf = if ctx.rng.chance(1, 3) { BufKind::Vec } else { BufKind::Arr(*ctx.rng.pick(&[64usize, 256, 1024])) };
        let hist = gen_hist(ctx, buf);
        let mut p = payload::any_payload(&mut ctx.rng);
        p.truncate(60);
        let (f, cuts) = stream::safe_cuts(&p);
        if cuts.is_empty() {
            continue;
        }
        let c = *ctx.rng.pick(&cuts);
        let m = small_payload(&mut ctx.rng, buf);
        ctx.eval(&Resync { hist, buf, lead: f[..c].to_vec(), lead_is_cut: true, long: None, m });
        ctx.bump("floor:cut-frame-cases");
    }
    // long noise (counter widths), both profiles
    let mut k = 0u64;
    for n in [65527usize, 65528, 65535, 65536, 65537, 131072, 200000] {
        for (fill, tail) in [(0x55u8, vec![]), (0x55, vec![0x1b]), (0x00, vec![0x1b, 0x1b, 0x1b, 0x1b, 0x01]), (0x1b, vec![])] {
            k += 1;
            if !ctx.mine(k) {
                continue;
            }
            ctx.eval(&Resync {
                hist: Hist::New,
                buf: BufKind::Vec,
                lead: Vec::new(),
                lead_is_cut: false,
                long: Some((n, fill, tail)),
                m: vec![1, 2, 3],
            });
        }
    }
}

pub fn floors() -> Vec<String> {
    let mut v: Vec<String> = ["new", "after-frame", "after-InvalidMessage", "after-InvalidEsc", "after-OutOfMemory", "after-reset", "after-finalize"]
        .iter()
        .map(|h| format!("floor:hist:{}", h))
        .collect();
    for t in ["empty", "all-1b", "other", "1x1b", "2x1b", "3x1b", "4x1b", "5x1b", "9x1b", "start[..5]", "start[..6]", "start[..7]"] {
        v.push(format!("floor:tail:{}", t));
    }
    v.push("floor:cut-frame-cases".into());
    v
}

pub const RULE: &str = "cases = (idle history, lead, payload, buffer): histories new / after a delivered frame / after InvalidMessage / InvalidEsc / OutOfMemory / \
after reset() or finalize() at a random point of a random stream - each constructed and then confirmed from the observed event; lead = noise of every tail class \
(empty, random, k x 1b for k=1..9, every proper prefix of the start sequence, all-1b, tail of a real frame; lengths up to 200000) whose cleanliness (start sequence only at |g|) is \
re-checked by the monitor, or a canonical frame cut at a protocol-level safe point. The observed position-stamped log must equal [DiscardedBytes(|lead|) at |lead|+7 (if any), Ok(m) at the last byte]. \
Distinct/non-trivial = distinct (history kind, observed noise tail class, lead length class) tuples";
