//! C14 - no memory across transmission boundaries. Differential monitor: the decoder after a boundary
//! vs. a fresh decoder of the same buffer type on the same continuation, compared by position-stamped
//! event logs including the final finalize().

use crate::core::{Ctx, PropCase, Verdict};
use crate::ensure;
use crate::fe::*;
use crate::gen::{payload, stream};
use crate::hexu::{hex_short, Case};
use crate::mon::{boundary_kind, is_boundary};
use crate::refm::transport::ref_encode;

pub struct Chain {
    pub buf: BufKind,
    /// segments: each is fed to the long-lived decoder; after it a boundary must have been observed
    /// (event-ended) or is injected (`r` = reset, `f` = finalize)
    pub segs: Vec<(Vec<u8>, char)>,
    /// final continuation compared against a fresh decoder as well
    pub tail: Vec<u8>,
}

impl PropCase for Chain {
    fn to_case(&self) -> Case {
        let segs: Vec<String> = self.segs.iter().map(|(s, k)| format!("{}:{}", k, crate::hexu::hex(s))).collect();
        Case::new("chain").s("buf", &self.buf.name()).s("segs", &segs.join(",")).h("tail", &self.tail)
    }
    fn from_case(c: &Case) -> Result<Self, String> {
        let mut segs = Vec::new();
        for t in c.get("segs")?.split(',').filter(|x| !x.is_empty()) {
            let (k, h) = t.split_once(':').ok_or("bad seg")?;
            segs.push((crate::hexu::unhex(h)?, k.chars().next().ok_or("bad seg kind")?));
        }
        Ok(Chain {
            buf: BufKind::parse(c.get("buf")?)?,
            segs,
            tail: c.bytes("tail")?,
        })
    }
    fn check(&self, ctx: &mut Ctx) -> Verdict {
        let mut a = new_decoder(self.buf);
        let nseg = self.segs.len();
        for k in 0..=nseg {
            // continuation = the next segment (or the tail)
            let cont: &[u8] = if k < nseg { &self.segs[k].0 } else { &self.tail };
            let mut la = Log::new();
            let mut lb = Log::new();
            // the "newly constructed" decoder: alternately Decoder::new() and Decoder::from_buf(stale buffer)
            let mut b = if k % 2 == 0 { new_decoder(self.buf) } else { new_decoder_from_buf(self.buf) };
            // long-lived decoder, remembering its state just before the last byte (for evidence)
            let mut before_last = a.state();
            for (i, byte) in cont.iter().enumerate() {
                if i + 1 == cont.len() {
                    before_last = a.state();
                }
                match a.push(*byte) {
                    Ok(None) => {}
                    Ok(Some(p)) => la.push((i, TEv::Ok(p))),
                    Err(e) => la.push((i, TEv::Err(e))),
                }
            }
            feed(b.as_mut(), cont, 0, &mut lb);
            if k > 0 {
                // a boundary preceded this continuation: both must have behaved identically
                ensure!(
                    la == lb,
                    &format!("after-{}", self.boundary_name(k - 1)),
                    format!("same log as a new decoder: {}", log_str(&lb)),
                    format!(
                        "{} (continuation {} after boundary #{} of {}, buffer {})",
                        log_str(&la),
                        hex_short(cont),
                        k,
                        nseg,
                        self.buf.name()
                    )
                );
                ctx.bump("boundaries_compared");
            }
            if k == nseg {
                // final finalize() must agree as well
                let fa = a.finalize();
                let fb = b.finalize();
                ensure!(
                    fa == fb,
                    "final-finalize",
                    format!("{:?} (new decoder)", fb),
                    format!("{:?}", fa)
                );
                break;
            }
            // establish the boundary after segment k
            let kind = self.segs[k].1;
            match kind {
                'e' => {
                    // event-ended: confirm from what was observed
                    match la.last() {
                        Some((p, ev)) if *p + 1 == cont.len() && is_boundary(ev) => {
                            let bk = boundary_kind(ev);
                            ctx.bump(&format!("floor:boundary:{}", bk));
                            if before_last.zero_cache > 0 {
                                ctx.bump(&format!("hook:dirty-zeros:{}", bk));
                            }
                            if before_last.buf_len > 0 {
                                ctx.bump(&format!("hook:dirty-buffer:{}", bk));
                            }
                            let dc = before_last.dirty_class();
                            ctx.class_s(&format!("{} from {}", bk, dc));
                        }
                        _ => {
                            // not a boundary after all: the chain stops counting here (not a verdict)
                            ctx.bump("skipped:segment-does-not-end-at-boundary");
                            return Ok(());
                        }
                    }
                }
                'r' => {
                    let st = a.state();
                    a.reset();
                    ctx.bump("floor:boundary:reset");
                    if st.zero_cache > 0 {
                        ctx.bump("hook:dirty-zeros:reset");
                    }
                    if st.buf_len > 0 {
                        ctx.bump("hook:dirty-buffer:reset");
                    }
                    ctx.class_s(&format!("reset from {}", st.dirty_class()));
                }
                _ => {
                    let st = a.state();
                    a.finalize();
                    ctx.bump("floor:boundary:finalize");
                    if st.zero_cache > 0 {
                        ctx.bump("hook:dirty-zeros:finalize");
                    }
                    if st.buf_len > 0 {
                        ctx.bump("hook:dirty-buffer:finalize");
                    }
                    ctx.class_s(&format!("finalize from {}", st.dirty_class()));
                }
            }
        }
        ctx.maxi("max_boundaries_on_one_decoder", nseg as u64);
        if ctx.want_sample("chain") {
            ctx.sample("chain", || {
                let v: Vec<String> = self.segs.iter().map(|(s, k)| format!("{}:{}", k, hex_short(s))).collect();
                format!("buf={} segments=[{}] tail={}", self.buf.name(), v.join(" | "), hex_short(&self.tail))
            });
        }
        Ok(())
    }
}

impl Chain {
    fn boundary_name(&self, k: usize) -> &'static str {
        match self.segs[k].1 {
            'e' => "event-boundary",
            'r' => "reset",
            _ => "finalize",
        }
    }
}

/// a stream that ends exactly at a boundary event of kind chosen at random (dirty state before it)
fn seg_ending_at_boundary(ctx: &mut Ctx, buf: BufKind) -> Option<Vec<u8>> {
    let rng = &mut ctx.rng;
    let cap = match buf {
        BufKind::Vec => None,
        BufKind::Arr(n) => Some(n),
    };
    let s: Vec<u8> = match rng.below(8) {
        7 => {
            // a valid frame whose checksum ends in 0x1b (found by search): its last bytes look like the
            // beginning of a start sequence
            let n = cap.unwrap_or(12).min(12);
            let mut p: Vec<u8> = (0..n).map(|_| rng.byte() | 0x20).collect();
            let mut best = ref_encode(&p);
            if n > 0 {
                for v in 0..=255u8 {
                    p[0] = v;
                    let f = ref_encode(&p);
                    if f[f.len() - 1] == 0x1b {
                        best = f.clone();
                        if f[f.len() - 2] == 0x1b {
                            break;
                        }
                    }
                }
            }
            best
        }
        0 => {
            // valid frame whose payload ends in zeros (zeros withheld right up to the end)
            let mut p = payload::any_payload(rng);
            p.truncate(cap.unwrap_or(40).min(40).saturating_sub(4));
            let z = rng.range(0, 4);
            p.extend(std::iter::repeat(0).take(z));
            ref_encode(&p)
        }
        1 => {
            // bad CRC with zeros withheld and a non-empty buffer
            let mut p = vec![0x11, 0x22, 0x33];
            p.extend(std::iter::repeat(0).take(rng.range(0, 5)));
            let mut f = ref_encode(&p);
            let n = f.len();
            f[n - 2] ^= 1 << rng.below(8);
            f
        }
        2 => {
            // misaligned / wrong pad with valid CRC
            stream::adversarial_frame(rng)
        }
        3 => {
            // invalid escape with withheld zeros
            let mut f = crate::refm::transport::START.to_vec();
            f.extend_from_slice(&[0x31, 0x32]);
            f.extend(std::iter::repeat(0).take(rng.range(0, 4)));
            f.extend_from_slice(&[0x1b, 0x1b, 0x1b, 0x1b]);
            match rng.below(4) {
                3 => {
                    // payload ending in 1..3 0x1b (looks like the beginning of a start sequence)
                    let k = rng.range(1, 3);
                    let mut pl = vec![*rng.pick(&[0x02u8, 0x03, 0x55]); 4 - k];
                    pl.extend(std::iter::repeat(0x1b).take(k));
                    f.extend_from_slice(&pl);
                }
                0 => f.extend_from_slice(&[*rng.pick(&[0x02u8, 0x03, 0x1c, 0x00]), rng.byte(), rng.byte(), rng.byte()]),
                1 => f.extend_from_slice(&[0x1b, 0x1b, 0x1b, 0x55]),
                _ => f.extend_from_slice(&[0x1b, *rng.pick(&[0x55u8, 0x1b]), 0x55, *rng.pick(&[0x1b, 0x00])]),
            }
            f
        }
        4 => {
            // out of memory (fixed buffers only)
            match cap {
                Some(n) => {
                    // overflow at a random place of a structured payload: plain bytes, zero runs, 0x1b runs and
                    // literal escapes all occur at the overflow point
                    let mut q: Vec<u8> = Vec::new();
                    while q.len() <= n {
                        match rng.below(5) {
                            0 => q.extend_from_slice(&[0x1b; 4]),
                            1 => q.extend(std::iter::repeat(0u8).take(rng.range(1, 5))),
                            2 => q.extend(std::iter::repeat(0x1bu8).take(rng.range(1, 9))),
                            _ => q.extend((0..rng.range(1, 4)).map(|i| 0x41 + i as u8)),
                        }
                    }
                    if rng.chance(1, 2) {
                        q.truncate(n + 1);
                    }
                    ref_encode(&q)
                }
                None => ref_encode(&payload::any_payload(rng)),
            }
        }
        _ => stream::any_stream(rng),
    };
    // cut at the first / a random boundary event (the generator runs the decoder itself: a panic there is
    // C05's business, the segment is simply skipped here)
    let log = match crate::core::guarded(|| {
        let mut d = new_decoder(buf);
        let mut log = Log::new();
        feed(d.as_mut(), &s, 0, &mut log);
        log
    }) {
        Ok(l) => l,
        Err(_) => {
            ctx.bump("generator-saw-panic(see C05)");
            return None;
        }
    };
    let bpos: Vec<usize> = log.iter().filter(|(_, e)| is_boundary(e)).map(|(p, _)| *p).collect();
    if bpos.is_empty() {
        return None;
    }
    let p = *ctx.rng.pick(&bpos);
    Some(s[..=p].to_vec())
}

/// continuation families that are sensitive to each kind of leak
fn sensitive_tail(ctx: &mut Ctx, buf: BufKind) -> Vec<u8> {
    let rng = &mut ctx.rng;
    let cap = match buf {
        BufKind::Vec => 48,
        BufKind::Arr(n) => n.min(48),
    };
    match rng.below(9) {
        0 => {
            // tail is zeros + padding (leaked withheld zeros change the pad check)
            let mut p: Vec<u8> = (0..rng.range(0, cap.saturating_sub(4))).map(|i| 0x51 + i as u8).collect();
            p.extend(std::iter::repeat(0).take(rng.range(0, 4).min(cap - p.len())));
            ref_encode(&p)
        }
        1 => {
            // fills the buffer exactly (leaked buffer content => premature OOM or garbage)
            let p: Vec<u8> = (0..cap).map(|i| 0x61 + (i % 20) as u8).collect();
            ref_encode(&p)
        }
        2 => {
            // noise then frame (leaked noise counters change the count)
            let tails = stream::all_noise_tails();
            let t = *rng.pick(&tails);
            let l = rng.range(0, 12);
            let mut s = stream::noise(rng, t, l);
            let mut p = payload::any_payload(rng);
            p.truncate(cap);
            s.extend_from_slice(&ref_encode(&p));
            s
        }
        3 => {
            // frame only valid at the right alignment, payload ending in 1..3 0x1b
            let mut p: Vec<u8> = (0..rng.range(0, cap.saturating_sub(3))).map(|i| 0x71 + i as u8).collect();
            let k = rng.range(1, 3).min(cap - p.len());
            p.extend(std::iter::repeat(0x1b).take(k));
            ref_encode(&p)
        }
        4 => {
            // incomplete frame: the final finalize() count must not include anything older
            let f = ref_encode(&payload::any_payload(rng));
            let c = rng.range(0, f.len());
            f[..c].to_vec()
        }
        5 => Vec::new(),
        6 => {
            // a frame whose start sequence lost its first 1..4 bytes (a leaked partial match would complete it)
            let mut p = payload::any_payload(rng);
            p.truncate(cap);
            let f = ref_encode(&p);
            let k = rng.range(1, 4);
            f[k..].to_vec()
        }
        _ => stream::any_stream(rng),
    }
}

pub fn run(ctx: &mut Ctx) {
    let n = ctx.count(250_000, 10_000_000);
    for i in 0..n {
        let buf = match ctx.rng.below(4) {
            0 => BufKind::Vec,
            1 => BufKind::Arr(*ctx.rng.pick(&[0usize, 1, 2, 3, 4, 5, 8])),
            _ => BufKind::Arr(*ctx.rng.pick(&[8usize, 16, 24, 32, 48, 64, 256, 1024])),
        };
        let nseg = if i % 50 == 0 { ctx.rng.range(5, 20) } else { ctx.rng.range(1, 3) };
        let mut segs = Vec::new();
        for _ in 0..nseg {
            match ctx.rng.below(4) {
                0 => {
                    // reset / finalize injected after an arbitrary prefix (any decoder phase)
                    let s = if ctx.rng.chance(1, 2) {
                        ref_encode(&payload::any_payload(&mut ctx.rng))
                    } else {
                        stream::any_stream(&mut ctx.rng)
                    };
                    let c = ctx.rng.range(0, s.len());
                    let k = if ctx.rng.chance(1, 2) { 'r' } else { 'f' };
                    segs.push((s[..c].to_vec(), k));
                }
                _ => {
                    if let Some(s) = seg_ending_at_boundary(ctx, buf) {
                        segs.push((s, 'e'));
                    }
                }
            }
        }
        if segs.is_empty() {
            continue;
        }
        let tail = sensitive_tail(ctx, buf);
        ctx.eval(&Chain { buf, segs, tail });
    }
}

pub fn floors() -> Vec<String> {
    // floors only on what is observed at the API (boundary kinds); the decoder-state classes just before a
    // boundary come from the read-only hook and are evidence only (counters `hook:dirty-*`)
    let mut v = Vec::new();
    for b in ["delivered", "InvalidMessage", "InvalidEsc", "OutOfMemory", "reset", "finalize"] {
        v.push(format!("floor:boundary:{}", b));
    }
    v
}

pub const RULE: &str = "cases = chains of 1..20 segments on one long-lived decoder; each segment ends at a boundary that is either confirmed from the observed event \
(delivered transmission, InvalidMessage, InvalidEsc, OutOfMemory - streams built to leave the decoder dirty just before: zeros withheld, buffer non-empty, odd alignment) or injected \
(reset() / finalize() after an arbitrary prefix in any decoder phase). After every boundary the next segment - and finally a leak-sensitive continuation (zero+padding tails, exact-fit payloads, \
noise+frame, alignment-sensitive frames, incomplete frames) - is fed to the long-lived decoder and to a brand-new decoder of the same buffer type; the position-stamped logs and the final finalize() must be equal. \
Distinct/non-trivial = distinct (boundary kind, decoder state class just before the boundary [phase, withheld zeros, buffer empty?, alignment residue]) tuples (state from the read-only hook, evidence only)";
