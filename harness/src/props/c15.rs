//! C15 - all decoding front-ends report the same results for the same bytes. Differential monitor.

use crate::core::{Ctx, PropCase, Verdict};
use crate::ensure;
use crate::fe::*;
use crate::gen::{payload, stream};
use crate::hexu::{hex_short, Case};
use crate::refm::transport::ref_encode;

pub struct Agree {
    pub s: Vec<u8>,
    pub origin: &'static str,
}

/// drive a reader with next() until None; normal form: Ok / Err list, trailing IoErr(Eof,n>0) => Discarded(n)
fn reader_log(s: &[u8], src: Src, rb: RBuf) -> Result<Log, String> {
    let env = ReaderEnv::from_bytes(s);
    let mut rd = new_reader(&env, src, rb);
    let mut log = Log::new();
    for _ in 0..s.len() + 4 {
        let out = rd.r.call(Api::Next, Target::Bytes);
        let pulled = (rd.pulled)();
        let pos = |at_end: bool| -> usize {
            if at_end {
                s.len()
            } else {
                pulled.map(|n| n.saturating_sub(1)).unwrap_or(usize::MAX)
            }
        };
        match out {
            ROut::None => return Ok(log),
            ROut::Bytes(m) => log.push((pos(false), TEv::Ok(m))),
            ROut::DecodeErr(e) => log.push((pos(false), TEv::Err(e))),
            ROut::IoErr(IoKind::Eof, n) if n > 0 => log.push((pos(true), TEv::Err(DErr::Discarded(n)))),
            other => return Err(format!("unexpected reader result {}", other.short())),
        }
    }
    Err("reader did not reach None within |s|+4 calls".into())
}

/// C15 speaks about the sequence of payloads and decode errors; where each result surfaces is C01's / C10's
/// business, so positions are not compared here (with_pos = false everywhere)
fn same(a: &Log, b: &Log, with_pos: bool) -> bool {
    if a.len() != b.len() {
        return false;
    }
    a.iter().zip(b.iter()).all(|((pa, ea), (pb, eb))| ea == eb && (!with_pos || pa == pb || *pa == usize::MAX || *pb == usize::MAX))
}

impl PropCase for Agree {
    fn to_case(&self) -> Case {
        Case::new("agree").h("s", &self.s).s("origin", self.origin)
    }
    fn from_case(c: &Case) -> Result<Self, String> {
        Ok(Agree {
            s: c.bytes("s")?,
            origin: "replay",
        })
    }
    fn check(&self, ctx: &mut Ctx) -> Verdict {
        let s = &self.s;
        let base = run_f1(BufKind::Vec, s);
        let base_s = log_str(&base);
        let arr = menu_at_least(s.len()).map(BufKind::Arr);
        if let Some(a) = arr {
            let l = run_f1(a, s);
            ensure!(same(&base, &l, false), "F1/arr-vs-vec", base_s.clone(), format!("{} (buffer {})", log_str(&l), a.name()));
        }
        {
            let l = run_f1_from_buf(BufKind::Vec, s);
            ensure!(same(&base, &l, false), "F1/from_buf-vs-new", base_s.clone(), log_str(&l));
        }
        // decode_streaming over a non-fused source: the input ends at the source's FIRST None (even mid-frame)
        if !s.is_empty() {
            let cut = (crate::rng::hash_bytes(s) as usize) % (s.len() + 1);
            let want_cut = run_f1(BufKind::Vec, &s[..cut]);
            let out = run_f3_unfused(&s[..cut], &s[cut..], 3);
            let we: Vec<TEv> = want_cut.iter().map(|(_, e)| e.clone()).collect();
            let ge: Vec<TEv> = out.log.iter().map(|(_, e)| e.clone()).collect();
            ensure!(
                ge == we && out.late.is_empty(),
                "F3-unfused-source-vs-F1",
                format!("{} then None on every further call", evs_str(&we)),
                format!("{} late={:?}", evs_str(&ge), out.late)
            );
        }
        // readers with the File and Parser target types: decode errors surface unchanged through T's error type,
        // deliveries are what the parsers make of the delivered bytes
        {
            let env = ReaderEnv::from_bytes(s);
            for target in [Target::File, Target::Parser] {
                let mut rd = new_reader(&env, Src::IterVal, RBuf::Kind(BufKind::Vec));
                for (k, (_, ev)) in base.iter().enumerate() {
                    let out = rd.r.call(if k % 2 == 0 { Api::Next } else { Api::Read }, target);
                    let ok = match (ev, &out) {
                        (TEv::Ok(p), ROut::File(r)) => target == Target::File && *r == crate::conv::run_complete(p),
                        (TEv::Ok(p), ROut::Events(r)) => {
                            let w = crate::conv::run_streaming(p, 2);
                            target == Target::Parser && r.events == w.events && r.first_err == w.first_err
                        }
                        (TEv::Err(DErr::Discarded(n)), ROut::IoErr(IoKind::Eof, m)) => n == m,
                        (TEv::Err(e), ROut::DecodeErr(d)) => e == d,
                        _ => false,
                    };
                    ensure!(
                        ok,
                        &format!("R/target-{:?}-vs-F1", target),
                        format!("result #{}: {} (as {:?})", k, ev.short(), target),
                        out.short()
                    );
                }
            }
        }
        // F1 with reset() instead of finalize(): the count must be the same number
        {
            let mut d = new_decoder(BufKind::Vec);
            let mut l = Log::new();
            feed(d.as_mut(), s, 0, &mut l);
            let n = d.reset();
            let fin = base.iter().rev().find_map(|(p, e)| match e {
                TEv::Err(DErr::Discarded(n)) if *p == s.len() => Some(*n),
                _ => None,
            });
            ensure!(
                n == fin.unwrap_or(0),
                "reset-vs-finalize",
                format!("reset() returns {} (what finalize() reports as discarded)", fin.unwrap_or(0)),
                format!("{}", n)
            );
        }
        let bl: Vec<TEv> = base.iter().map(|(_, e)| e.clone()).collect();
        for by_ref in [false, true] {
            let f2 = run_f2(s, by_ref);
            ensure!(f2 == bl, "F2-vs-F1", evs_str(&bl), evs_str(&f2));
        }
        let mut bufs = vec![BufKind::Vec];
        bufs.extend(arr);
        for &b in &bufs {
            let f3 = run_f3(b, s, 2);
            ensure!(
                same(&base, &f3.log, false) && f3.late.is_empty(),
                &format!("F3/{}-vs-F1", b.kind_class()),
                base_s.clone(),
                format!("{} late={:?}", log_str(&f3.log), f3.late)
            );
        }
        let mut rbufs: Vec<RBuf> = bufs.iter().map(|b| RBuf::Kind(*b)).collect();
        if s.len() <= 8192 {
            rbufs.push(RBuf::Default);
        }
        let h = crate::rng::hash_bytes(s) as usize;
        for (si, src) in [Src::Slice, Src::IterVal, Src::IterRef, Src::Io].iter().enumerate() {
            // every source with one buffer kind (rotating), the io source with all of them
            for (bi, rb) in rbufs.iter().enumerate() {
                if *src != Src::Io && (h + si) % rbufs.len() != bi {
                    continue;
                }
                match reader_log(s, *src, *rb) {
                    Ok(l) => {
                        ensure!(
                            same(&base, &l, false),
                            &format!("R/{}-vs-F1", src.name()),
                            base_s.clone(),
                            format!("{} (buffer {})", log_str(&l), rb.name())
                        );
                    }
                    Err(e) => {
                        return Err(crate::core::Fail::new(&format!("R/{}-vs-F1", src.name()), base_s.clone(), e));
                    }
                }
                ctx.bump("reader_runs");
            }
        }
        // observed classes
        let mut kinds: Vec<&str> = base
            .iter()
            .map(|(p, e)| match e {
                TEv::Ok(_) => "Ok",
                TEv::Err(DErr::Discarded(_)) if *p == s.len() => "FinalDiscard",
                TEv::Err(e) => e.kind(),
            })
            .collect();
        let nres = kinds.len();
        kinds.sort();
        kinds.dedup();
        let key = crate::rng::hash_str(&format!("{}{:?}", nres.min(8), kinds));
        ctx.class(key, || format!("results={} kinds={:?}", nres.min(8), kinds));
        if base.iter().any(|(p, _)| *p == s.len()) {
            ctx.bump("floor:leftover-at-end");
        }
        ctx.bump(&format!("origin:{}", self.origin));
        if ctx.want_sample(self.origin) {
            ctx.sample(self.origin, || format!("stream={} -> all front-ends: {}", hex_short(s), base_s));
        }
        Ok(())
    }
}

pub fn run(ctx: &mut Ctx) {
    let n = ctx.count(120_000, 6_000_000);
    for i in 0..n {
        let (s, origin) = match i % 5 {
            0 => (stream::concat_stream(&mut ctx.rng, 1 + i % 8), "concat"),
            1 => (ref_encode(&payload::any_payload(&mut ctx.rng)), "valid-frame"),
            2 => {
                // stream ending in every decoder phase: a valid frame / adversarial stream cut anywhere
                let s = stream::concat_stream(&mut ctx.rng, 2);
                let c = ctx.rng.range(0, s.len());
                (s[..c].to_vec(), "cut-anywhere")
            }
            3 => (ctx.rng.biased_in(0, 60, &[0x1b, 0x01, 0x1a, 0x00]), "random"),
            _ => (stream::any_stream(&mut ctx.rng), "adversarial"),
        };
        ctx.eval(&Agree { s, origin });
    }
    // long noise: finalize vs reset vs Eof count beyond 2^16
    let mut k = 0u64;
    for n in [65535usize, 65536, 65537, 131072] {
        for with_frame in [false, true] {
            k += 1;
            if !ctx.mine(k) {
                continue;
            }
            let mut s = vec![0x55u8; n];
            if with_frame {
                s.extend_from_slice(&ref_encode(&[1, 2, 3]));
            }
            ctx.eval(&Agree { s, origin: "long-noise" });
        }
    }
    // one transmission beyond 1 MiB: growable vs. fixed buffer of sufficient capacity
    if ctx.mine(13) {
        let p: Vec<u8> = (0..(1usize << 20) + 5000).map(|i| (i % 253) as u8).collect();
        ctx.eval(&Agree { s: ref_encode(&p), origin: "megabyte-frame" });
    }
    for (i, (_, b)) in crate::corpus::files().iter().enumerate() {
        if ctx.mine(i as u64) {
            ctx.eval(&Agree { s: b.clone(), origin: "recording" });
        }
    }
}

pub const FLOORS: &[&str] = &["floor:leftover-at-end", "origin:long-noise", "origin:megabyte-frame"];

pub const RULE: &str = "cases = byte streams (concatenations of up to 8 frames / adversarial frames / noise / garbage, valid frames, streams cut at any offset so that input ends in every decoder phase, \
random protocol bytes, long noise beyond 2^16, the real recordings). For each: push decoder + finalize (Vec and ArrayBuf<N>=|s|), push decoder + reset, decode (by value / by reference), decode_streaming (both buffers), \
SmlReader::next over slice / by-value iterator / by-reference iterator / io::Read with Vec, ArrayBuf and the default buffer; normalised result lists and position stamps must be identical. \
Distinct/non-trivial = distinct (number of results capped 8, set of result kinds incl. final-discard) tuples";
