//! One workload + monitor module per property.

use crate::core::{Ctx, PropCase};
use crate::hexu::Case;

pub mod c01;

fn replay_as<C: PropCase>(ctx: &mut Ctx, case: &Case) -> Result<(), String> {
    let c = C::from_case(case)?;
    ctx.eval(&c);
    Ok(())
}

/// runs the workload of property `ctx.prop` for this shard; false if the id is unknown
pub fn run(ctx: &mut Ctx) -> bool {
    match ctx.prop.as_str() {
        "C01" => {
            ctx.rep.floors = c01::FLOORS.iter().map(|s| s.to_string()).collect();
            ctx.rep.rule = c01::RULE.to_string();
            c01::run(ctx)
        }
        _ => return false,
    }
    true
}

pub fn replay(ctx: &mut Ctx, case: &Case) -> Result<(), String> {
    match (ctx.prop.as_str(), case.kind.as_str()) {
        ("C01", "roundtrip") => replay_as::<c01::RoundTrip>(ctx, case),
        (p, k) => Err(format!("no replay handler for property {} case kind '{}'", p, k)),
    }
}
