//! One workload + monitor module per property.

use crate::core::{Ctx, PropCase};
use crate::hexu::Case;

pub mod c01;
pub mod c02;
pub mod c03;
pub mod c04;
pub mod c05;
pub mod c06;
pub mod c07;
pub mod c08;
pub mod c09;
pub mod c10;
pub mod c11;
pub mod c12;
pub mod c13;
pub mod c14;
pub mod c15;
pub mod c16;
pub mod c17;
pub mod c18;
pub mod pin;

fn replay_as<C: PropCase>(ctx: &mut Ctx, case: &Case) -> Result<(), String> {
    let c = C::from_case(case)?;
    ctx.eval(&c);
    Ok(())
}

fn sv(v: &[&str]) -> Vec<String> {
    v.iter().map(|s| s.to_string()).collect()
}

/// runs the workload of property `ctx.prop` for this shard; false if the id is unknown
pub fn run(ctx: &mut Ctx) -> bool {
    macro_rules! go {
        ($m:ident, $floors:expr) => {{
            ctx.rep.floors = $floors;
            ctx.rep.rule = $m::RULE.to_string();
            $m::run(ctx)
        }};
    }
    match ctx.prop.as_str() {
        "C01" => go!(c01, sv(c01::FLOORS)),
        "C02" => go!(c02, sv(c02::FLOORS)),
        "C03" => go!(c03, c03::floors()),
        "C04" => go!(c04, sv(c04::FLOORS)),
        "C05" => go!(c05, sv(c05::FLOORS)),
        "C06" => go!(c06, sv(c06::FLOORS)),
        "C07" => go!(c07, sv(c07::FLOORS)),
        "C08" => go!(c08, c08::floors()),
        "C09" => go!(c09, c09::floors()),
        "C10" => go!(c10, c10::floors()),
        "C11" => go!(c11, c11::floors()),
        "C12" => go!(c12, c12::floors()),
        "C13" => go!(c13, sv(c13::FLOORS)),
        "C14" => go!(c14, c14::floors()),
        "C15" => go!(c15, sv(c15::FLOORS)),
        "C16" => go!(c16, sv(c16::FLOORS)),
        "C17" => go!(c17, sv(c17::FLOORS)),
        "C18" => go!(c18, sv(c18::FLOORS)),
        _ => return false,
    }
    true
}

pub fn replay(ctx: &mut Ctx, case: &Case) -> Result<(), String> {
    // replays always journal (an abort must be attributable) and never sample
    match (ctx.prop.as_str(), case.kind.as_str()) {
        ("C01", "roundtrip") => replay_as::<c01::RoundTrip>(ctx, case),
        ("C02", "sound") => replay_as::<c02::Sound>(ctx, case),
        ("C03", "complete") => replay_as::<c03::Complete>(ctx, case),
        ("C04", "soundp") => replay_as::<c04::SoundP>(ctx, case),
        ("C05", "history") => replay_as::<c05::History>(ctx, case),
        ("C05", "longrun") => replay_as::<c05::LongRun>(ctx, case),
        ("C05", "misc") => replay_as::<c05::Misc>(ctx, case),
        ("C06", "total") => replay_as::<c06::Total>(ctx, case),
        ("C07", "enc") => replay_as::<c07::Enc>(ctx, case),
        ("C08", "resync") => replay_as::<c08::Resync>(ctx, case),
        ("C09", "agreep") => replay_as::<c09::AgreeP>(ctx, case),
        ("C10", "trans") => replay_as::<c10::Trans>(ctx, case),
        ("C11", "faults") => replay_as::<c11::Faults>(ctx, case),
        ("C12", "probe") => replay_as::<c12::Probe>(ctx, case),
        ("C12", "anywhere") => replay_as::<c12::Anywhere>(ctx, case),
        ("C13", "term") => replay_as::<c13::Term>(ctx, case),
        ("C14", "chain") => replay_as::<c14::Chain>(ctx, case),
        ("C15", "agree") => replay_as::<c15::Agree>(ctx, case),
        ("C16", "cap") => replay_as::<c16::Cap>(ctx, case),
        ("C17", "tile") => replay_as::<c17::Tile>(ctx, case),
        ("C17", "tileio") => replay_as::<c17::TileIo>(ctx, case),
        ("C17", "hugenoise") => replay_as::<c17::HugeNoise>(ctx, case),
        ("C18", "bufhist") => replay_as::<c18::Hist>(ctx, case),
        (p, k) => Err(format!("no replay handler for property {} case kind '{}'", p, k)),
    }
}
