//! C11 - I/O faults. Fault-injecting io::Read / embedded-hal source; trace checker against the fault-free
//! run of the same reader, "continues like a fresh reader" decided by actually running the fresh reader.

use crate::core::{Ctx, Fail, PropCase, Verdict};
use crate::ensure;
use crate::fe::*;
use crate::gen::{payload, stream};
use crate::hexu::Case;
use crate::props::c17::{items_from_text, items_to_text};
use crate::refm::transport::{ref_encode, START};

pub struct Faults {
    pub items: Vec<Item>,
    pub src: Src,
    pub rbuf: RBuf,
    /// api schedule letters cycled: r = read, n = next, R = read_nb, N = next_nb
    pub apis: String,
    pub target: Target,
    pub origin: &'static str,
}

fn api_at(s: &str, k: usize) -> Api {
    let b = s.as_bytes();
    match b[k % b.len()] {
        b'r' => Api::Read,
        b'n' => Api::Next,
        b'R' => Api::ReadNb,
        _ => Api::NextNb,
    }
}

/// Normalised observation of one call (API representation differences removed)
#[derive(Clone, Debug, PartialEq, Eq)]
enum Obs {
    /// a transmission (its bytes / a summary of the parse for File, Parser targets)
    Deliver(String),
    Decode(DErr),
    WouldBlock,
    Other(usize),
    Eof(usize),
}

fn normalise(api: Api, out: &ROut) -> Result<Obs, String> {
    Ok(match out {
        ROut::Bytes(b) => Obs::Deliver(crate::hexu::hex(b)),
        ROut::File(r) => Obs::Deliver(format!("file:{:?}", r.as_ref().map(|f| f.messages.len()).map_err(|e| e.name()))),
        ROut::Events(r) => Obs::Deliver(format!("events:{}:{:?}", r.events.len(), r.first_err.map(|e| e.name()))),
        ROut::DecodeErr(e) => Obs::Decode(e.clone()),
        ROut::IoErr(IoKind::WouldBlock, n) => {
            if *n != 0 {
                return Err(format!("IoErr(WouldBlock, {}) - a would-block must carry 0 discarded bytes", n));
            }
            if matches!(api, Api::ReadNb | Api::NextNb) {
                return Err("the nb API returned IoErr(WouldBlock, _) instead of nb::Error::WouldBlock".into());
            }
            Obs::WouldBlock
        }
        ROut::NbWouldBlock => {
            if !matches!(api, Api::ReadNb | Api::NextNb) {
                return Err("blocking API returned nb::WouldBlock".into());
            }
            Obs::WouldBlock
        }
        ROut::IoErr(IoKind::Other, n) => Obs::Other(*n),
        ROut::IoErr(IoKind::Eof, n) => {
            if *n == 0 && matches!(api, Api::Next | Api::NextNb) {
                return Err("next()/next_nb() returned Err(IoErr(Eof, 0)) instead of None".into());
            }
            Obs::Eof(*n)
        }
        ROut::None => {
            if !matches!(api, Api::Next | Api::NextNb) {
                return Err("read() returned None".into());
            }
            Obs::Eof(0)
        }
    })
}

struct RunOut {
    obs: Vec<Obs>,
    /// source bytes delivered when each observation surfaced
    pulled: Vec<usize>,
}

/// drives one reader over the script: every call consumes at least one script item or sees the end of
/// the script, so items + extra + 2 calls always reach (and then stay at) the end
fn drive(items: &[Item], src: Src, rbuf: RBuf, apis: &str, target: Target, extra: usize) -> Result<RunOut, String> {
    let env = ReaderEnv::from_script(items.to_vec());
    let mut rd = new_reader(&env, src, rbuf);
    let mut obs = Vec::new();
    let mut pulled = Vec::new();
    let limit = items.len() + extra + 2;
    for k in 0..limit {
        let api = api_at(apis, k);
        let out = rd.r.call(api, target);
        let o = normalise(api, &out).map_err(|e| format!("call #{} ({:?}): {}", k, api, e))?;
        obs.push(o);
        pulled.push((rd.pulled)().unwrap_or(0));
    }
    Ok(RunOut { obs, pulled })
}

impl PropCase for Faults {
    fn to_case(&self) -> Case {
        Case::new("faults")
            .s("script", &items_to_text(&self.items))
            .s("src", self.src.name())
            .s("rbuf", &self.rbuf.name())
            .s("apis", &self.apis)
            .s(
                "target",
                match self.target {
                    Target::Bytes => "b",
                    Target::File => "f",
                    Target::Parser => "p",
                },
            )
    }
    fn from_case(c: &Case) -> Result<Self, String> {
        Ok(Faults {
            items: items_from_text(c.get("script")?)?,
            src: Src::parse(c.get("src")?)?,
            rbuf: RBuf::parse(c.get("rbuf")?)?,
            apis: c.get("apis")?.to_string(),
            target: match c.get("target")? {
                "f" => Target::File,
                "p" => Target::Parser,
                _ => Target::Bytes,
            },
            origin: "replay",
        })
    }
    fn check(&self, ctx: &mut Ctx) -> Verdict {
        let is_eh = self.src == Src::Eh;
        let extra = 5;
        // the run under test
        let run = drive(&self.items, self.src, self.rbuf, &self.apis, self.target, extra)
            .map_err(|e| Fail::new("api-representation", "each condition in the representation its API prescribes", e))?;
        let all_bytes: Vec<u8> = self.items.iter().filter_map(|i| if let Item::Byte(b) = i { Some(*b) } else { None }).collect();

        // Walk through the script segment by segment (segments end at an Other-class error).
        let mut item_idx = 0usize; // next script item
        let mut obs_idx = 0usize; // next observation
        let mut byte_base = 0usize; // source bytes before the current segment
        let mut depth = 0;
        loop {
            // the current segment: items up to (not including) the next Other / transient EOF
            let seg_end = (item_idx..self.items.len())
                .find(|&j| matches!(self.items[j], Item::Other | Item::EofOnce))
                .unwrap_or(self.items.len());
            let seg_items = &self.items[item_idx..seg_end];
            let seg_bytes: Vec<u8> = seg_items.iter().filter_map(|i| if let Item::Byte(b) = i { Some(*b) } else { None }).collect();
            // R(s): fault-free run of the same reader type on the segment's bytes
            let clean: Vec<Item> = seg_bytes.iter().map(|b| Item::Byte(*b)).collect();
            let free = drive(&clean, Src::Io, self.rbuf, "r", self.target, 0)
                .map_err(|e| Fail::new("fault-free-run", "fault-free run is representable", e))?;
            // fault-free results by the byte offset at which they surfaced; the last entry is Eof(n)
            let mut free_at: Vec<(usize, Obs)> = Vec::new();
            let mut pending_at_end = 0usize;
            for (o, p) in free.obs.iter().zip(free.pulled.iter()) {
                match o {
                    Obs::Eof(n) => {
                        pending_at_end = *n;
                        break;
                    }
                    other => free_at.push((*p, other.clone())),
                }
            }
            // expected observations for this segment: merge faults (script order) with R(s)
            let mut expect: Vec<Obs> = Vec::new();
            let mut nbytes = 0usize;
            let mut fi = 0usize;
            for it in seg_items {
                match it {
                    Item::Byte(_) => {
                        nbytes += 1;
                        while fi < free_at.len() && free_at[fi].0 == nbytes {
                            expect.push(free_at[fi].1.clone());
                            fi += 1;
                        }
                    }
                    Item::WouldBlock => expect.push(Obs::WouldBlock),
                    // std's read_exact retries Interrupted; the embedded-hal source maps it to would-block
                    Item::Interrupted => {
                        if is_eh {
                            expect.push(Obs::WouldBlock)
                        }
                    }
                    _ => unreachable!(),
                }
            }
            let at_script_end = seg_end == self.items.len();
            // bytes of this segment not covered by a reported result = what the error / EOF must carry
            let last_boundary = free_at.iter().rev().find(|(_, o)| !matches!(o, Obs::Decode(DErr::Discarded(_)))).map(|(p, _)| *p).unwrap_or(0);
            let _ = last_boundary;
            if at_script_end {
                if is_eh {
                    for _ in 0..=extra {
                        expect.push(Obs::WouldBlock);
                    }
                } else {
                    if pending_at_end > 0 {
                        expect.push(Obs::Eof(pending_at_end));
                    }
                    for _ in 0..=extra {
                        expect.push(Obs::Eof(0));
                    }
                }
            } else {
                // an Other-class error: carries exactly the not-yet-reported bytes of this segment
                if is_eh || self.items[seg_end] == Item::Other {
                    expect.push(Obs::Other(pending_at_end));
                } else {
                    // transient end-of-file indication from an io::Read
                    expect.push(Obs::Eof(pending_at_end));
                }
            }
            // compare
            let got = &run.obs[obs_idx.min(run.obs.len())..(obs_idx + expect.len()).min(run.obs.len())];
            let sub = if depth == 0 { "trace" } else { "trace-after-error(fresh-reader)" };
            ensure!(
                got == &expect[..],
                &format!("{}/{}", sub, self.src.name()),
                format!("segment #{} (script items {}..{}): {:?}", depth, item_idx, seg_end, expect),
                format!("{:?} ; whole run: {:?}", got, run.obs)
            );
            // independent exactness of the count: the tiling rule of C17 on this segment
            {
                let mut lg = Log::new();
                for (p, o) in &free_at {
                    match o {
                        Obs::Deliver(_) => lg.push((*p - 1, TEv::Ok(Vec::new()))),
                        Obs::Decode(e) => lg.push((*p - 1, TEv::Err(e.clone()))),
                        _ => {}
                    }
                }
                let end = if pending_at_end > 0 { Some(pending_at_end) } else { None };
                if let Err(e) = crate::mon::check_tiling_opt(&seg_bytes, &lg, end, false) {
                    return Err(Fail::new(
                        "error-count-exact",
                        "the count attached to the error / end of input equals the bytes not yet reported",
                        e,
                    ));
                }
            }
            // coverage: decoder phase at the moment each fault was delivered (hook, evidence only)
            {
                let mut d = new_decoder(BufKind::Vec);
                for it in seg_items.iter().chain(self.items.get(seg_end)) {
                    match it {
                        Item::Byte(b) => {
                            let _ = d.push(*b);
                        }
                        f => {
                            let st = d.state();
                            let fk = match f {
                                Item::WouldBlock => "WouldBlock",
                                Item::Interrupted => "Interrupted",
                                Item::Other => "Other",
                                Item::EofOnce => "TransientEof",
                                _ => "",
                            };
                            let ph = match st.phase {
                                0 => format!("LookingForStart({})", st.aux),
                                1 => format!("Normal(z{})", st.zero_cache.min(4)),
                                2 => format!("EscChars({})", st.aux),
                                3 => format!("EscPayload({})", st.aux),
                                _ => "Done".to_string(),
                            };
                            ctx.class_s(&format!("{} @ {}", fk, ph));
                            ctx.bump(&format!("faults:{}", fk));
                        }
                    }
                }
                if at_script_end && !is_eh {
                    let st = d.state();
                    ctx.class_s(&format!("Eof @ {}", st.phase_name()));
                    ctx.bump("faults:Eof");
                    if pending_at_end > 0 {
                        ctx.bump("floor:eof-with-pending-data");
                    } else {
                        ctx.bump("floor:eof-without-pending-data");
                    }
                }
            }
            obs_idx += expect.len();
            if at_script_end {
                break;
            }
            ctx.bump("floor:other-error-then-fresh-reader-compared");
            byte_base += seg_bytes.len();
            item_idx = seg_end + 1;
            depth += 1;
            // "continues exactly like a fresh reader on the remaining stream": run a fresh reader on the rest
            let rest = &self.items[item_idx..];
            // keep the api phase aligned: the fresh reader continues the same schedule
            let shift = obs_idx % self.apis.len().max(1);
            let apis_rot: String = self.apis.chars().cycle().skip(shift).take(self.apis.len()).collect();
            let fresh = drive(rest, self.src, self.rbuf, &apis_rot, self.target, extra)
                .map_err(|e| Fail::new("api-representation", "representable", e))?;
            let tail = &run.obs[obs_idx.min(run.obs.len())..];
            let n = tail.len().min(fresh.obs.len());
            ensure!(
                tail[..n] == fresh.obs[..n] && n > 0,
                &format!("fresh-after-error/{}", self.src.name()),
                format!("after the error at script item {} the results equal those of a new reader on the remaining stream: {:?}", seg_end, fresh.obs),
                format!("{:?}", tail)
            );
        }
        let _ = (byte_base, all_bytes);
        ctx.bump(&format!("floor:src:{}", self.src.name()));
        ctx.bump(&format!("floor:api:{}", self.apis.chars().next().unwrap_or('r')));
        ctx.bump(&format!("origin:{}", self.origin));
        if ctx.want_sample(self.origin) {
            ctx.sample(self.origin, || format!("src={} apis={} script={} -> {:?}", self.src.name(), self.apis, items_to_text(&self.items), run.obs));
        }
        Ok(())
    }
}

/// the fixed short streams, chosen to visit every decoder phase
pub fn base_streams() -> Vec<Vec<u8>> {
    let mut v = Vec::new();
    // literal escape + padding
    v.push(ref_encode(&[0x11, 0x1b, 0x1b, 0x1b, 0x1b, 0x22, 0x00]));
    // ending in 1..3 0x1b (re-alignment)
    v.push(ref_encode(&[0x31, 0x32, 0x33, 0x1b]));
    v.push(ref_encode(&[0x31, 0x1b, 0x1b, 0x1b]));
    // noise ending in a partial start + frame
    let mut s = vec![0x55, 0x1b, 0x1b, 0x1b, 0x1b, 0x01, 0x01];
    s.extend_from_slice(&ref_encode(&[0x41, 0x42]));
    v.push(s);
    // two frames back to back
    let mut s = ref_encode(&[0x51]);
    s.extend_from_slice(&ref_encode(&[0x52, 0x00, 0x00]));
    v.push(s);
    // frame + restart inside
    let mut s = START.to_vec();
    s.extend_from_slice(&[0x61, 0x62, 0x63, 0x64]);
    s.extend_from_slice(&ref_encode(&[0x65, 0x66, 0x67, 0x68]));
    v.push(s);
    // truncated frame
    let f = ref_encode(&[0x71, 0x72, 0x73, 0x74, 0x75]);
    v.push(f[..f.len() - 3].to_vec());
    // bad CRC frame + good frame
    let mut f = ref_encode(&[0x81, 0x82]);
    let n = f.len();
    f[n - 1] ^= 0x10;
    f.extend_from_slice(&ref_encode(&[0x83]));
    v.push(f);
    // invalid escape + good frame
    let mut s = START.to_vec();
    s.extend_from_slice(&[0x1b, 0x1b, 0x1b, 0x1b, 0x02, 0x00, 0x00, 0x00]);
    s.extend_from_slice(&ref_encode(&[0x91]));
    v.push(s);
    // empty payload; noise only; empty stream
    v.push(ref_encode(&[]));
    v.push(vec![0x55, 0x1b, 0x01]);
    v.push(Vec::new());
    v
}

fn with_faults(s: &[u8], faults: &[(usize, Item)]) -> Vec<Item> {
    let mut items = Vec::new();
    for g in 0..=s.len() {
        for (at, f) in faults {
            if *at == g {
                items.push(*f);
            }
        }
        if g < s.len() {
            items.push(Item::Byte(s[g]));
        }
    }
    items
}

pub fn run(ctx: &mut Ctx) {
    let kinds = [Item::WouldBlock, Item::Interrupted, Item::Other];
    let api_sets = ["r", "n", "R", "N", "rnRN"];
    let mut idx = 0u64;
    let streams = base_streams();
    let mut singles = 0u64;
    let mut pairs = 0u64;
    for (si, s) in streams.iter().enumerate() {
        let rbufs = [RBuf::Default, RBuf::Kind(BufKind::Vec), RBuf::Kind(BufKind::Arr(64))];
        // EOF at every position (truncations), fault-free
        for c in 0..=s.len() {
            idx += 1;
            if !ctx.mine(idx) {
                continue;
            }
            for apis in ["r", "n", "N"] {
                let items = with_faults(&s[..c], &[]);
                ctx.eval(&Faults { items, src: Src::Io, rbuf: rbufs[c % 3], apis: apis.into(), target: Target::Bytes, origin: "eof-at-every-position" });
            }
        }
        // single faults: every gap x every kind (exhaustive)
        for g in 0..=s.len() {
            for k in kinds {
                idx += 1;
                if !ctx.mine(idx) {
                    continue;
                }
                singles += 1;
                let items = with_faults(s, &[(g, k)]);
                for (ai, apis) in api_sets.iter().enumerate() {
                    ctx.eval(&Faults { items: items.clone(), src: Src::Io, rbuf: rbufs[(g + ai) % 3], apis: apis.to_string(), target: Target::Bytes, origin: "single-fault" });
                }
                // other target types: errors surface through T's error type
                ctx.eval(&Faults { items: items.clone(), src: Src::Io, rbuf: RBuf::Default, apis: "n".into(), target: if g % 2 == 0 { Target::File } else { Target::Parser }, origin: "single-fault" });
                if k != Item::Interrupted {
                    for apis in ["r", "R", "N"] {
                        ctx.eval(&Faults { items: items.clone(), src: Src::Eh, rbuf: RBuf::Default, apis: apis.into(), target: Target::Bytes, origin: "single-fault-eh" });
                    }
                }
                // runs of 2..3 consecutive faults at one position
                for r in 2..=3 {
                    let fs: Vec<(usize, Item)> = (0..r).map(|_| (g, k)).collect();
                    let items = with_faults(s, &fs);
                    ctx.eval(&Faults { items, src: Src::Io, rbuf: RBuf::Default, apis: "rn".into(), target: Target::Bytes, origin: "fault-run" });
                }
            }
        }
        // pairs of positions x kind pairs: all pairs in thorough, distance <= 8 in quick
        let maxd = if ctx.quick() { 8 } else { usize::MAX };
        for g1 in 0..=s.len() {
            for g2 in g1..=s.len() {
                if g2 - g1 > maxd {
                    continue;
                }
                for k1 in kinds {
                    for k2 in kinds {
                        idx += 1;
                        if !ctx.mine(idx) {
                            continue;
                        }
                        pairs += 1;
                        let items = with_faults(s, &[(g1, k1), (g2, k2)]);
                        let apis = api_sets[(g1 + g2 + si) % api_sets.len()];
                        ctx.eval(&Faults { items, src: Src::Io, rbuf: rbufs[(g1 + g2) % 3], apis: apis.into(), target: Target::Bytes, origin: "fault-pair" });
                    }
                }
            }
        }
    }
    // thorough: triples of faults at neighbouring positions (span <= 3) on the three shortest non-empty base streams
    if !ctx.quick() {
        let mut short: Vec<&Vec<u8>> = streams.iter().filter(|s| !s.is_empty()).collect();
        short.sort_by_key(|s| s.len());
        let mut triples = 0u64;
        for s in short.iter().take(3) {
            for g1 in 0..=s.len() {
                for g2 in g1..=(g1 + 3).min(s.len()) {
                    for g3 in g2..=(g1 + 3).min(s.len()) {
                        for k1 in kinds {
                            for k2 in kinds {
                                for k3 in kinds {
                                    idx += 1;
                                    if !ctx.mine(idx) {
                                        continue;
                                    }
                                    triples += 1;
                                    let items = with_faults(s, &[(g1, k1), (g2, k2), (g3, k3)]);
                                    let apis = api_sets[(g1 + g2 + g3) % api_sets.len()];
                                    ctx.eval(&Faults { items, src: Src::Io, rbuf: RBuf::Default, apis: apis.into(), target: Target::Bytes, origin: "fault-triple" });
                                }
                            }
                        }
                    }
                }
            }
        }
        ctx.exhaustive_space("fault triples: positions within a span of 3 x 27 kind triples on the 3 shortest base streams", triples);
    }
    ctx.exhaustive_space("single faults: every inter-byte position x {WouldBlock, Interrupted, Other} on the 12 base streams", singles);
    ctx.exhaustive_space(
        if ctx.quick() {
            "fault pairs: positions at distance <= 8 x 9 kind pairs on the 12 base streams"
        } else {
            "fault pairs: every pair of positions x 9 kind pairs on the 12 base streams"
        },
        pairs,
    );
    // long runs of one transparent fault at one position (300 consecutive would-blocks / interrupts)
    for (si, s) in streams.iter().enumerate() {
        for g in [0usize, 3, 9, s.len() / 2, s.len()] {
            if g > s.len() {
                continue;
            }
            for k in [Item::WouldBlock, Item::Interrupted] {
                idx += 1;
                if !ctx.mine(idx) {
                    continue;
                }
                let fs: Vec<(usize, Item)> = (0..300).map(|_| (g, k)).collect();
                let items = with_faults(s, &fs);
                ctx.eval(&Faults { items, src: Src::Io, rbuf: RBuf::Default, apis: if si % 2 == 0 { "r".into() } else { "N".into() }, target: Target::Bytes, origin: "long-fault-run" });
            }
        }
    }
    // random scripts over random streams, fault probability 1..30 % per gap
    let n = ctx.count(60_000, 2_000_000);
    for _ in 0..n {
        let s = if ctx.rng.chance(1, 2) {
            let k = ctx.rng.range(1, 4);
            stream::concat_stream(&mut ctx.rng, k)
        } else {
            let mut p = payload::any_payload(&mut ctx.rng);
            p.truncate(80);
            ref_encode(&p)
        };
        let pct = ctx.rng.range(1, 30);
        let src = if ctx.rng.chance(1, 4) { Src::Eh } else { Src::Io };
        let mut items = Vec::new();
        // every error of the Other class costs one more full run of a fresh reader: at most 3 per script
        let mut hard_left = 3;
        for g in 0..=s.len() {
            while ctx.rng.below(100) < pct {
                // (a transient end-of-file indication followed by more data is not scripted here: whether a reader
                // resumes or latches the end of input afterwards is not prescribed by the property)
                let mut f = *ctx.rng.pick(&[Item::WouldBlock, Item::WouldBlock, Item::Interrupted, Item::Other]);
                if src == Src::Eh && matches!(f, Item::Interrupted | Item::EofOnce) {
                    continue;
                }
                if matches!(f, Item::Other | Item::EofOnce) {
                    if hard_left == 0 {
                        f = Item::WouldBlock;
                    } else {
                        hard_left -= 1;
                    }
                }
                items.push(f);
            }
            if g < s.len() {
                items.push(Item::Byte(s[g]));
            }
        }
        let apis: String = (0..ctx.rng.range(1, 5)).map(|_| *ctx.rng.pick(&['r', 'n', 'R', 'N'])).collect();
        let rbuf = *ctx.rng.pick(&[RBuf::Default, RBuf::Kind(BufKind::Vec), RBuf::Kind(BufKind::Arr(16)), RBuf::Kind(BufKind::Arr(256))]);
        let target = *ctx.rng.pick(&[Target::Bytes, Target::Bytes, Target::File, Target::Parser]);
        ctx.eval(&Faults { items, src, rbuf, apis, target, origin: "random-script" });
    }
}

pub fn floors() -> Vec<String> {
    let mut v: Vec<String> = vec![
        "floor:eof-with-pending-data".into(),
        "floor:eof-without-pending-data".into(),
        "floor:other-error-then-fresh-reader-compared".into(),
        "floor:src:io".into(),
        "floor:src:eh".into(),
        "faults:WouldBlock".into(),
        "faults:Interrupted".into(),
        "faults:Other".into(),
        "faults:Eof".into(),
    ];
    for a in ["r", "n", "R", "N"] {
        v.push(format!("floor:api:{}", a));
    }
    v
}

pub const RULE: &str = "cases = fault scripts: a byte stream with faults placed between bytes, then permanent end of input. Enumerated exhaustively on 12 short streams that visit every decoder phase: \
end of input at every position; every single fault (every inter-byte position x WouldBlock / Interrupted / Other); runs of 2..3 faults at one position; every pair of positions x 9 kind pairs \
(quick: distance <= 8); plus random scripts (fault probability 1..30 % per gap) over random streams. Injectors: std::io::Read (default / Vec / ArrayBuf buffers) and embedded_hal::serial::Read; \
APIs read / next / read_nb / next_nb and mixes; targets DecodedBytes / File / Parser. Checker: the observed sequence must equal the fault-free results of the same reader merged with one would-block per scripted WouldBlock \
(Interrupted invisible), an Other error must carry exactly the unreported byte count (also checked by the tiling rule) and the rest must equal what a NEW reader yields on the remaining script; at end of input next() is None iff nothing is pending and stays None. \
Distinct/non-trivial = distinct (fault kind, decoder phase at the moment the fault was delivered) pairs (phase from the read-only hook, evidence only)";
