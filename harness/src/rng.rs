//! Own PRNG (xoshiro256**, seeded through splitmix64). Deterministic, no external crate.

#[derive(Clone, Debug)]
pub struct Rng {
    s: [u64; 4],
}

pub fn splitmix64(x: &mut u64) -> u64 {
    *x = x.wrapping_add(0x9E37_79B9_7F4A_7C15);
    let mut z = *x;
    z = (z ^ (z >> 30)).wrapping_mul(0xBF58_476D_1CE4_E5B9);
    z = (z ^ (z >> 27)).wrapping_mul(0x94D0_49BB_1331_11EB);
    z ^ (z >> 31)
}

/// Mixes several integers into one seed.
pub fn mix(parts: &[u64]) -> u64 {
    let mut h = 0x243F_6A88_85A3_08D3u64;
    for p in parts {
        let mut x = h ^ p.wrapping_mul(0x9E37_79B9_7F4A_7C15);
        h = splitmix64(&mut x);
    }
    h
}

pub fn hash_str(s: &str) -> u64 {
    let mut h = 0xcbf2_9ce4_8422_2325u64;
    for b in s.bytes() {
        h ^= b as u64;
        h = h.wrapping_mul(0x1000_0000_01b3);
    }
    h
}

pub fn hash_bytes(s: &[u8]) -> u64 {
    let mut h = 0xcbf2_9ce4_8422_2325u64;
    for b in s {
        h ^= *b as u64;
        h = h.wrapping_mul(0x1000_0000_01b3);
    }
    h
}

impl Rng {
    pub fn new(seed: u64) -> Self {
        let mut x = seed;
        let s = [
            splitmix64(&mut x),
            splitmix64(&mut x),
            splitmix64(&mut x),
            splitmix64(&mut x),
        ];
        Rng { s }
    }

    pub fn next_u64(&mut self) -> u64 {
        let result = self.s[1].wrapping_mul(5).rotate_left(7).wrapping_mul(9);
        let t = self.s[1] << 17;
        self.s[2] ^= self.s[0];
        self.s[3] ^= self.s[1];
        self.s[1] ^= self.s[2];
        self.s[0] ^= self.s[3];
        self.s[2] ^= t;
        self.s[3] = self.s[3].rotate_left(45);
        result
    }

    pub fn byte(&mut self) -> u8 {
        (self.next_u64() >> 32) as u8
    }

    /// uniform in 0..n (n > 0)
    pub fn below(&mut self, n: usize) -> usize {
        debug_assert!(n > 0);
        ((self.next_u64() >> 11) % (n as u64)) as usize
    }

    /// uniform in lo..=hi
    pub fn range(&mut self, lo: usize, hi: usize) -> usize {
        lo + self.below(hi - lo + 1)
    }

    /// true with probability num/den
    pub fn chance(&mut self, num: usize, den: usize) -> bool {
        self.below(den) < num
    }

    pub fn pick<'a, T>(&mut self, xs: &'a [T]) -> &'a T {
        &xs[self.below(xs.len())]
    }

    pub fn bytes(&mut self, n: usize) -> Vec<u8> {
        let mut v = Vec::with_capacity(n);
        while v.len() + 8 <= n {
            v.extend_from_slice(&self.next_u64().to_le_bytes());
        }
        while v.len() < n {
            v.push(self.byte());
        }
        v
    }

    /// bytes drawn from `alphabet` with probability 3/4, uniform otherwise
    pub fn biased_bytes(&mut self, n: usize, alphabet: &[u8]) -> Vec<u8> {
        (0..n)
            .map(|_| {
                if self.chance(3, 4) {
                    *self.pick(alphabet)
                } else {
                    self.byte()
                }
            })
            .collect()
    }

    /// `bytes` with a length drawn from lo..=hi
    pub fn bytes_in(&mut self, lo: usize, hi: usize) -> Vec<u8> {
        let n = self.range(lo, hi);
        self.bytes(n)
    }

    pub fn biased_in(&mut self, lo: usize, hi: usize, alphabet: &[u8]) -> Vec<u8> {
        let n = self.range(lo, hi);
        self.biased_bytes(n, alphabet)
    }

    pub fn fork(&mut self) -> Rng {
        Rng::new(self.next_u64())
    }
}
