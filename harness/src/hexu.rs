//! hex helpers, a tiny JSON writer and the textual "case" format used for replay.

use std::collections::BTreeMap;
use std::fmt::Write;

pub fn hex(b: &[u8]) -> String {
    let mut s = String::with_capacity(b.len() * 2);
    for x in b {
        let _ = write!(s, "{:02x}", x);
    }
    s
}

/// hex for humans: long inputs are abbreviated (only used for samples, never for replay)
pub fn hex_short(b: &[u8]) -> String {
    if b.len() <= 96 {
        hex(b)
    } else {
        format!(
            "{}..({} bytes)..{}",
            hex(&b[..40]),
            b.len(),
            hex(&b[b.len() - 24..])
        )
    }
}

pub fn unhex(s: &str) -> Result<Vec<u8>, String> {
    let s: Vec<u8> = s.bytes().filter(|c| !c.is_ascii_whitespace()).collect();
    if s.len() % 2 != 0 {
        return Err("odd hex length".into());
    }
    let nib = |c: u8| -> Result<u8, String> {
        match c {
            b'0'..=b'9' => Ok(c - b'0'),
            b'a'..=b'f' => Ok(c - b'a' + 10),
            b'A'..=b'F' => Ok(c - b'A' + 10),
            _ => Err(format!("bad hex char {}", c as char)),
        }
    };
    let mut v = Vec::with_capacity(s.len() / 2);
    for p in s.chunks(2) {
        v.push(nib(p[0])? << 4 | nib(p[1])?);
    }
    Ok(v)
}

pub fn json_str(s: &str) -> String {
    let mut o = String::with_capacity(s.len() + 2);
    o.push('"');
    for c in s.chars() {
        match c {
            '"' => o.push_str("\\\""),
            '\\' => o.push_str("\\\\"),
            '\n' => o.push_str("\\n"),
            '\r' => o.push_str("\\r"),
            '\t' => o.push_str("\\t"),
            c if (c as u32) < 0x20 => {
                let _ = write!(o, "\\u{:04x}", c as u32);
            }
            c => o.push(c),
        }
    }
    o.push('"');
    o
}

/// A replayable case: `kind` plus key/value pairs. Values are plain tokens or hex.
/// Text form: `kind;k=v;k=v` (values never contain ';' or '=').
#[derive(Clone, Debug, Default, PartialEq, Eq)]
pub struct Case {
    pub kind: String,
    pub kv: BTreeMap<String, String>,
}

impl Case {
    pub fn new(kind: &str) -> Self {
        Case {
            kind: kind.to_string(),
            kv: BTreeMap::new(),
        }
    }
    pub fn s(mut self, k: &str, v: &str) -> Self {
        debug_assert!(!v.contains(';') && !v.contains('='));
        self.kv.insert(k.to_string(), v.to_string());
        self
    }
    pub fn n(self, k: &str, v: usize) -> Self {
        self.s(k, &v.to_string())
    }
    pub fn h(self, k: &str, v: &[u8]) -> Self {
        self.s(k, &hex(v))
    }
    pub fn get(&self, k: &str) -> Result<&str, String> {
        self.kv
            .get(k)
            .map(|s| s.as_str())
            .ok_or_else(|| format!("case field '{}' missing", k))
    }
    pub fn get_or<'a>(&'a self, k: &str, d: &'a str) -> &'a str {
        self.kv.get(k).map(|s| s.as_str()).unwrap_or(d)
    }
    pub fn num(&self, k: &str) -> Result<usize, String> {
        self.get(k)?
            .parse::<usize>()
            .map_err(|e| format!("case field '{}': {}", k, e))
    }
    pub fn num_or(&self, k: &str, d: usize) -> usize {
        self.kv.get(k).and_then(|s| s.parse().ok()).unwrap_or(d)
    }
    pub fn bytes(&self, k: &str) -> Result<Vec<u8>, String> {
        unhex(self.get(k)?)
    }
    pub fn to_text(&self) -> String {
        let mut s = self.kind.clone();
        for (k, v) in &self.kv {
            s.push(';');
            s.push_str(k);
            s.push('=');
            s.push_str(v);
        }
        s
    }
    pub fn from_text(t: &str) -> Result<Case, String> {
        let mut it = t.trim().split(';');
        let kind = it.next().ok_or("empty case")?.to_string();
        let mut kv = BTreeMap::new();
        for p in it {
            let (k, v) = p.split_once('=').ok_or_else(|| format!("bad pair '{}'", p))?;
            kv.insert(k.to_string(), v.to_string());
        }
        Ok(Case { kind, kv })
    }
    /// abbreviated form for evidence samples
    pub fn to_sample(&self) -> String {
        let mut s = self.kind.clone();
        for (k, v) in &self.kv {
            s.push(';');
            s.push_str(k);
            s.push('=');
            if v.len() > 200 {
                let _ = write!(s, "{}..({} chars)..{}", &v[..80], v.len(), &v[v.len() - 40..]);
            } else {
                s.push_str(v);
            }
        }
        s
    }
}
