//! sml-verif: runtime monitors for the 18 sml-rs properties (see /verif/DESIGN.md).
//!
//!   sml-verif worker <ID> --tier quick|thorough --seed S --shard k/n --profile chk|rel
//!                         --volume PCT --journal FILE --out FILE
//!   sml-verif replay <ID> --case-file FILE --profile P --out FILE
//!   sml-verif selftest

mod alloc_track;
mod conv;
mod core;
mod corpus;
mod fe;
mod gen;
mod hexu;
mod mon;
mod props;
mod refm;
mod rng;

#[global_allocator]
static GLOBAL: alloc_track::Tracking = alloc_track::Tracking;

use crate::core::{Ctx, Tier};

fn arg<'a>(args: &'a [String], name: &str) -> Option<&'a str> {
    args.iter().position(|a| a == name).and_then(|i| args.get(i + 1)).map(|s| s.as_str())
}

fn selftests() -> Result<(), String> {
    refm::crc::selftest()?;
    refm::transport::selftest()?;
    refm::tlf::selftest()?;
    refm::sml::selftest()?;
    mon::selftest()?;
    Ok(())
}

fn real_main() -> i32 {
    let args: Vec<String> = std::env::args().collect();
    if args.len() < 2 {
        eprintln!("usage: sml-verif worker|replay|selftest ...");
        return 3;
    }
    core::install_panic_hook();
    match args[1].as_str() {
        "selftest" => match selftests() {
            Ok(()) => {
                println!("selftest ok");
                0
            }
            Err(e) => {
                println!("SELFTEST-FAILED {}", e);
                4
            }
        },
        "worker" | "replay" => {
            let id = args.get(2).cloned().unwrap_or_default();
            let tier = match arg(&args, "--tier").unwrap_or("quick") {
                "thorough" => Tier::Thorough,
                _ => Tier::Quick,
            };
            let seed: u64 = arg(&args, "--seed").and_then(|s| s.parse().ok()).unwrap_or(0);
            let (shard, nshards) = arg(&args, "--shard")
                .and_then(|s| s.split_once('/'))
                .and_then(|(a, b)| Some((a.parse().ok()?, b.parse().ok()?)))
                .unwrap_or((0usize, 1usize));
            let profile = arg(&args, "--profile").unwrap_or("chk").to_string();
            let volume: usize = arg(&args, "--volume").and_then(|s| s.parse().ok()).unwrap_or(100);
            let out = arg(&args, "--out").map(|s| s.to_string());
            let journal = arg(&args, "--journal");
            if let Err(e) = selftests() {
                // an oracle that fails its own self-test makes the run inconclusive, never a violation
                println!("SELFTEST-FAILED {}", e);
                return 4;
            }
            let mut ctx = Ctx::new(&id, tier, seed, shard, nshards, &profile, volume, journal);
            // totality checks also format every error value (Display / Debug); must hold for replays as well
            if id == "C05" || id == "C06" {
                fe::format_errors(true);
            }
            if args[1] == "replay" {
                let path = arg(&args, "--case-file").expect("--case-file");
                let text = std::fs::read_to_string(path).expect("cannot read case file");
                let case = match hexu::Case::from_text(&text) {
                    Ok(c) => c,
                    Err(e) => {
                        println!("BAD-CASE {}", e);
                        return 3;
                    }
                };
                ctx.replaying = true;
                if let Err(e) = props::replay(&mut ctx, &case) {
                    println!("BAD-CASE {}", e);
                    return 3;
                }
            } else {
                // a panic outside a monitored call is a harness error (inconclusive), never a verdict
                match core::guarded(|| props::run(&mut ctx)) {
                    Ok(true) => {}
                    Ok(false) => {
                        println!("UNKNOWN-PROPERTY {}", id);
                        return 3;
                    }
                    Err(p) => {
                        println!("HARNESS-ERROR {}", p);
                        return 5;
                    }
                }
            }
            let json = ctx.rep.to_json(&id, shard, &profile);
            match out {
                Some(p) => core::write_out(&p, &json),
                None => println!("{}", json),
            }
            if ctx.rep.violation_count > 0 {
                1
            } else {
                0
            }
        }
        _ => 3,
    }
}

fn main() {
    // big stack: ArrayBuf<70000> values live on the stack before they are boxed
    let h = std::thread::Builder::new()
        .stack_size(256 << 20)
        .spawn(real_main)
        .expect("spawn");
    let code = h.join().unwrap_or(5);
    std::process::exit(code);
}
