//! Tracking global allocator: the heap monitor of C06.
//!
//! Counts calls / bytes requested / the largest single request while tracking is switched on
//! (thread-local switch, so formatting etc. outside a monitored window is not counted).
//! A single request above `HARD_LIMIT` is refused (null => the Rust runtime aborts): the worker
//! has journalled the case before, so the driver knows which input asked for it.

use std::alloc::{GlobalAlloc, Layout, System};
use std::cell::Cell;

pub struct Tracking;

pub const HARD_LIMIT: usize = 1 << 30; // 1 GiB

thread_local! {
    static ON: Cell<bool> = const { Cell::new(false) };
    static CALLS: Cell<u64> = const { Cell::new(0) };
    static BYTES: Cell<u64> = const { Cell::new(0) };
    static MAXREQ: Cell<u64> = const { Cell::new(0) };
}

#[derive(Clone, Copy, Debug, Default, PartialEq, Eq)]
pub struct Window {
    pub calls: u64,
    pub bytes: u64,
    pub max_single: u64,
}

fn note(size: usize) {
    // try_with: the allocator may be called during TLS teardown
    let _ = ON.try_with(|on| {
        if on.get() {
            let _ = CALLS.try_with(|c| c.set(c.get() + 1));
            let _ = BYTES.try_with(|c| c.set(c.get() + size as u64));
            let _ = MAXREQ.try_with(|c| c.set(c.get().max(size as u64)));
        }
    });
}

unsafe impl GlobalAlloc for Tracking {
    unsafe fn alloc(&self, layout: Layout) -> *mut u8 {
        note(layout.size());
        if layout.size() > HARD_LIMIT {
            return std::ptr::null_mut();
        }
        System.alloc(layout)
    }
    unsafe fn dealloc(&self, ptr: *mut u8, layout: Layout) {
        System.dealloc(ptr, layout)
    }
    unsafe fn alloc_zeroed(&self, layout: Layout) -> *mut u8 {
        note(layout.size());
        if layout.size() > HARD_LIMIT {
            return std::ptr::null_mut();
        }
        System.alloc_zeroed(layout)
    }
    unsafe fn realloc(&self, ptr: *mut u8, layout: Layout, new_size: usize) -> *mut u8 {
        // a growth request is counted with its full new size (what the program asked to hold)
        note(new_size);
        if new_size > HARD_LIMIT {
            return std::ptr::null_mut();
        }
        System.realloc(ptr, layout, new_size)
    }
}

/// Runs `f` with tracking on and returns what it requested from the heap.
pub fn window<T>(f: impl FnOnce() -> T) -> (T, Window) {
    CALLS.with(|c| c.set(0));
    BYTES.with(|c| c.set(0));
    MAXREQ.with(|c| c.set(0));
    ON.with(|c| c.set(true));
    let r = f();
    ON.with(|c| c.set(false));
    let w = Window {
        calls: CALLS.with(|c| c.get()),
        bytes: BYTES.with(|c| c.get()),
        max_single: MAXREQ.with(|c| c.get()),
    };
    (r, w)
}

/// switch tracking off (used by the panic path: unwinding out of `window` leaves it on)
pub fn off() {
    ON.with(|c| c.set(false));
}
