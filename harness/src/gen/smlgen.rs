//! Random abstract SML files (all value variants, optional-field masks, list lengths across the
//! 15/16 TLF boundary) - including things no real meter in the repository's corpus sends.

use crate::refm::sml::*;
use crate::rng::Rng;

pub fn gen_bytes(rng: &mut Rng, max: usize) -> Vec<u8> {
    let n = match rng.below(10) {
        0 => 0,
        1 => *rng.pick(&[13usize, 14, 15, 16, 17, 29, 30, 31]),
        2 => rng.range(0, max),
        _ => rng.range(0, 12.min(max)),
    };
    let n = n.min(max);
    // position-dependent content so that a shifted slice is visible
    let base = rng.byte();
    (0..n).map(|i| base.wrapping_add((i as u8).wrapping_mul(7)) | u8::from(rng.chance(1, 8))).collect()
}

fn opt_bytes(rng: &mut Rng, max: usize) -> Option<Vec<u8>> {
    if rng.chance(1, 2) {
        None
    } else {
        Some(gen_bytes(rng, max))
    }
}

pub fn gen_time(rng: &mut Rng) -> ATime {
    ATime::SecIndex(match rng.below(6) {
        0 => 0,
        1 => u32::MAX,
        2 => rng.below(256) as u32,
        3 => rng.below(65536) as u32,
        4 => 0x0100_0000 | rng.below(1 << 24) as u32,
        _ => rng.next_u64() as u32,
    })
}

fn opt_time(rng: &mut Rng) -> Option<ATime> {
    if rng.chance(1, 2) {
        None
    } else {
        Some(gen_time(rng))
    }
}

/// signed value that fits `w` bytes (w in 1..=8), biased to the extremes of that width
pub fn gen_signed(rng: &mut Rng, w: usize) -> i64 {
    let bits = 8 * w as u32;
    let min = if bits == 64 { i64::MIN } else { -(1i64 << (bits - 1)) };
    let max = if bits == 64 { i64::MAX } else { (1i64 << (bits - 1)) - 1 };
    match rng.below(8) {
        0 => min,
        1 => max,
        2 => -1,
        3 => 0,
        4 => 1,
        5 => min + 1,
        _ => {
            let r = rng.next_u64() as i64;
            if bits == 64 {
                r
            } else {
                // sign-extend the low `bits` bits
                (r << (64 - bits)) >> (64 - bits)
            }
        }
    }
}

pub fn gen_unsigned(rng: &mut Rng, w: usize) -> u64 {
    let bits = 8 * w as u32;
    let max = if bits == 64 { u64::MAX } else { (1u64 << bits) - 1 };
    match rng.below(8) {
        0 => 0,
        1 => max,
        2 => 1,
        3 => max >> 1,
        4 => (max >> 1) + 1,
        _ => rng.next_u64() & max,
    }
}

pub fn gen_value(rng: &mut Rng) -> AValue {
    match rng.below(11) {
        0 => AValue::Bool(rng.chance(1, 2)),
        1 => AValue::Bytes(gen_bytes(rng, 300)),
        2 => AValue::I8(gen_signed(rng, 1) as i8),
        3 => AValue::I16(gen_signed(rng, 2) as i16),
        4 => {
            let w = rng.range(3, 4);
            AValue::I32(gen_signed(rng, w) as i32)
        }
        5 => {
            let w = rng.range(5, 8);
            AValue::I64(gen_signed(rng, w))
        }
        6 => AValue::U8(gen_unsigned(rng, 1) as u8),
        7 => AValue::U16(gen_unsigned(rng, 2) as u16),
        8 => {
            let w = rng.range(3, 4);
            AValue::U32(gen_unsigned(rng, w) as u32)
        }
        9 => {
            let w = rng.range(5, 8);
            AValue::U64(gen_unsigned(rng, w))
        }
        _ => AValue::List(gen_time(rng)),
    }
}

pub fn gen_status(rng: &mut Rng) -> AStatus {
    match rng.below(4) {
        0 => AStatus::S8(gen_unsigned(rng, 1) as u8),
        1 => AStatus::S16(gen_unsigned(rng, 2) as u16),
        2 => {
            let w = rng.range(3, 4);
            AStatus::S32(gen_unsigned(rng, w) as u32)
        }
        _ => {
            let w = rng.range(5, 8);
            AStatus::S64(gen_unsigned(rng, w))
        }
    }
}

pub fn gen_entry(rng: &mut Rng) -> AEntry {
    AEntry {
        obj_name: gen_bytes(rng, 20),
        status: if rng.chance(1, 2) { None } else { Some(gen_status(rng)) },
        val_time: opt_time(rng),
        unit: if rng.chance(1, 2) { None } else { Some(rng.byte()) },
        scaler: if rng.chance(1, 2) { None } else { Some(gen_signed(rng, 1) as i8) },
        value: gen_value(rng),
        value_signature: opt_bytes(rng, 40),
    }
}

/// an entry close to the 8-byte wire minimum (no optional fields, tiny name and value)
pub fn gen_tiny_entry(rng: &mut Rng) -> AEntry {
    AEntry {
        obj_name: if rng.chance(1, 2) { vec![] } else { vec![rng.byte()] },
        status: None,
        val_time: None,
        unit: None,
        scaler: None,
        value: match rng.below(4) {
            0 => AValue::Bytes(vec![]),
            1 => AValue::Bool(rng.chance(1, 2)),
            2 => AValue::U8(rng.byte()),
            _ => AValue::I8(rng.byte() as i8),
        },
        value_signature: None,
    }
}

/// a file whose list response consists of `n` entries of exactly the 8-byte wire minimum (`77 01 01 01 01 01 01 01` in
/// the minimal encoding) inside a message with empty ids, optionally followed by a close message: every "an entry /
/// a message needs at least k bytes" estimate in a parser is exact or wrong on these
pub fn gen_min_list_file(n_entries: usize, with_close: bool) -> AFile {
    let e = AEntry { obj_name: vec![], status: None, val_time: None, unit: None, scaler: None, value: AValue::Bytes(vec![]), value_signature: None };
    let mut messages = vec![AMsg {
        transaction_id: vec![],
        group_no: 0,
        abort_on_error: 0,
        body: ABody::GetList(AGetList {
            client_id: None,
            server_id: vec![],
            list_name: None,
            act_sensor_time: None,
            val_list: vec![e; n_entries],
            list_signature: None,
            act_gateway_time: None,
        }),
    }];
    if with_close {
        messages.push(AMsg { transaction_id: vec![], group_no: 0, abort_on_error: 0, body: ABody::Close(AClose { global_signature: None }) });
    }
    AFile { messages }
}

pub fn gen_list_len(rng: &mut Rng, max: usize) -> usize {
    let n = match rng.below(12) {
        0 => 0,
        1 => 1,
        2 => *rng.pick(&[14usize, 15, 16, 17]),
        3 => *rng.pick(&[255usize, 256, 300]),
        _ => rng.range(0, 8),
    };
    n.min(max)
}

pub fn gen_msg(rng: &mut Rng, max_list: usize) -> AMsg {
    let body = match rng.below(4) {
        0 => ABody::Open(AOpen {
            codepage: opt_bytes(rng, 10),
            client_id: opt_bytes(rng, 10),
            req_file_id: gen_bytes(rng, 16),
            server_id: gen_bytes(rng, 16),
            ref_time: opt_time(rng),
            sml_version: if rng.chance(1, 2) { None } else { Some(rng.byte()) },
        }),
        1 => ABody::Close(AClose {
            global_signature: opt_bytes(rng, 64),
        }),
        _ => {
            let n = gen_list_len(rng, max_list);
            let tiny = rng.chance(1, 4);
            ABody::GetList(AGetList {
                client_id: opt_bytes(rng, 10),
                server_id: gen_bytes(rng, 16),
                list_name: opt_bytes(rng, 10),
                act_sensor_time: opt_time(rng),
                val_list: (0..n).map(|_| if tiny { gen_tiny_entry(rng) } else { gen_entry(rng) }).collect(),
                list_signature: opt_bytes(rng, 40),
                act_gateway_time: opt_time(rng),
            })
        }
    };
    AMsg {
        transaction_id: gen_bytes(rng, 20),
        group_no: rng.byte(),
        abort_on_error: rng.byte(),
        body,
    }
}

pub fn gen_file(rng: &mut Rng, max_msgs: usize, max_list: usize) -> AFile {
    let lo = if rng.chance(1, 30) { 0 } else { 1 };
    let n = rng.range(lo, max_msgs);
    AFile {
        messages: (0..n).map(|_| gen_msg(rng, max_list)).collect(),
    }
}

/// small file for exhaustive-per-offset corruption work
pub fn gen_small_file(rng: &mut Rng) -> AFile {
    let mut f = gen_file(rng, 3, 3);
    for m in &mut f.messages {
        m.transaction_id.truncate(6);
    }
    f
}

/// a typical meter-like file: open, get-list, close
pub fn gen_typical(rng: &mut Rng, n_entries: usize) -> AFile {
    let tid = gen_bytes(rng, 8);
    AFile {
        messages: vec![
            AMsg {
                transaction_id: tid.clone(),
                group_no: 0,
                abort_on_error: 0,
                body: ABody::Open(AOpen {
                    codepage: None,
                    client_id: None,
                    req_file_id: gen_bytes(rng, 8),
                    server_id: gen_bytes(rng, 10),
                    ref_time: opt_time(rng),
                    sml_version: None,
                }),
            },
            AMsg {
                transaction_id: tid.clone(),
                group_no: 0,
                abort_on_error: 0,
                body: ABody::GetList(AGetList {
                    client_id: None,
                    server_id: gen_bytes(rng, 10),
                    list_name: opt_bytes(rng, 6),
                    act_sensor_time: opt_time(rng),
                    val_list: (0..n_entries).map(|_| gen_entry(rng)).collect(),
                    list_signature: None,
                    act_gateway_time: opt_time(rng),
                }),
            },
            AMsg {
                transaction_id: tid,
                group_no: 0,
                abort_on_error: 0,
                body: ABody::Close(AClose {
                    global_signature: None,
                }),
            },
        ],
    }
}

/// a file whose last message is a list response made only of near-minimal entries
pub fn gen_tiny_list_file(rng: &mut Rng, n_entries: usize) -> AFile {
    AFile {
        messages: vec![AMsg {
            transaction_id: gen_bytes(rng, 3),
            group_no: 0,
            abort_on_error: 0,
            body: ABody::GetList(AGetList {
                client_id: None,
                server_id: vec![],
                list_name: None,
                act_sensor_time: None,
                val_list: (0..n_entries).map(|_| gen_tiny_entry(rng)).collect(),
                list_signature: None,
                act_gateway_time: None,
            }),
        }],
    }
}
