//! Adversarial stream generators for the transport decoder: a frame assembler with faults and an
//! attacker's CRC, mutations of valid frames, splices, concatenations, noise.

use super::payload;
use crate::refm::crc::crc16_x25;
use crate::refm::transport::{escape_payload, is_clean_noise, ref_encode, ESC, START};
use crate::rng::Rng;

#[derive(Clone, Copy, Debug, PartialEq, Eq)]
pub enum CrcMode {
    /// computed over whatever was emitted before it
    Correct,
    LowBitOff,
    HighBitOff,
    Random,
}

#[derive(Clone, Debug)]
pub struct FrameSpec {
    /// start sequence as emitted (possibly damaged)
    pub start: Vec<u8>,
    /// raw body as emitted (0x1b runs are *not* necessarily escaped canonically)
    pub body: Vec<u8>,
    pub zeros: usize,
    /// extra bytes to break the 4-byte alignment
    pub misalign: Vec<u8>,
    pub end_byte: u8,
    pub pad: u8,
    pub crc: CrcMode,
}

pub fn assemble(s: &FrameSpec, rng: &mut Rng) -> Vec<u8> {
    let mut out = Vec::new();
    out.extend_from_slice(&s.start);
    out.extend_from_slice(&s.body);
    out.extend(std::iter::repeat(0u8).take(s.zeros));
    out.extend_from_slice(&s.misalign);
    out.extend_from_slice(&ESC);
    out.push(s.end_byte);
    out.push(s.pad);
    // an attacker computes the CRC over whatever framing they chose - as the receiver does, from
    // the last start sequence on
    let from = last_start(&out).unwrap_or(0);
    let mut crc = crc16_x25(&out[from..]);
    match s.crc {
        CrcMode::Correct => {}
        CrcMode::LowBitOff => crc ^= 1 << rng.below(8),
        CrcMode::HighBitOff => crc ^= 1 << (8 + rng.below(8)),
        CrcMode::Random => crc = rng.next_u64() as u16,
    }
    out.push((crc & 0xff) as u8);
    out.push((crc >> 8) as u8);
    out
}

fn last_start(s: &[u8]) -> Option<usize> {
    if s.len() < 8 {
        return None;
    }
    (0..=s.len() - 8).rev().find(|&i| s[i..i + 8] == START)
}

/// Recompute the trailing CRC of something that ends like a frame (last two bytes), over everything
/// from the last start sequence that precedes the end marker.
pub fn fix_trailing_crc(s: &mut [u8]) {
    if s.len() < 10 {
        return;
    }
    let n = s.len();
    let from = last_start(&s[..n - 2]).unwrap_or(0);
    let crc = crc16_x25(&s[from..n - 2]);
    s[n - 2] = (crc & 0xff) as u8;
    s[n - 1] = (crc >> 8) as u8;
}

pub fn random_spec(rng: &mut Rng) -> FrameSpec {
    let start = match rng.below(12) {
        0 => {
            let mut s = START.to_vec();
            let i = rng.below(8);
            s[i] ^= 1 << rng.below(8);
            s
        }
        1 => START[..rng.range(0, 7)].to_vec(),
        2 => {
            let mut s = vec![0x1b; rng.range(1, 5)];
            s.extend_from_slice(&START);
            s
        }
        _ => START.to_vec(),
    };
    let raw = payload::any_payload(rng);
    let body = if rng.chance(1, 2) { escape_payload(&raw) } else { raw };
    let body = if body.len() > 200 { body[..rng.range(0, 200)].to_vec() } else { body };
    let zeros = rng.below(6);
    let misalign = if rng.chance(1, 6) {
        let k = rng.range(1, 3);
        (0..k).map(|_| *rng.pick(&[0x00u8, 0x55, 0x1a, 0x01])).collect()
    } else {
        Vec::new()
    };
    // mostly make the frame aligned so that the other checks are what stands in the way
    let mut spec = FrameSpec {
        start,
        body,
        zeros,
        misalign,
        end_byte: if rng.chance(1, 12) { *rng.pick(&[0x1b, 0x00, 0x01, 0x19, 0x1c]) } else { 0x1a },
        pad: *rng.pick(&[0, 0, 1, 1, 2, 2, 3, 3, 4, 5, 0xff]),
        crc: *rng.pick(&[
            CrcMode::Correct,
            CrcMode::Correct,
            CrcMode::Correct,
            CrcMode::Correct,
            CrcMode::Correct,
            CrcMode::LowBitOff,
            CrcMode::HighBitOff,
            CrcMode::Random,
        ]),
    };
    if rng.chance(2, 3) {
        // choose the number of zeros so that the end sequence is 4-byte aligned
        let len = spec.start.len() + spec.body.len() + spec.misalign.len();
        let need = (4 - len % 4) % 4;
        spec.zeros = need + 4 * rng.below(2);
        if rng.chance(1, 2) {
            spec.pad = (need as u8).min(3);
        }
    }
    spec
}

pub fn adversarial_frame(rng: &mut Rng) -> Vec<u8> {
    let s = random_spec(rng);
    assemble(&s, rng)
}

/// one mutation of a (valid) frame; optionally with the trailing CRC recomputed afterwards
pub fn mutate(frame: &[u8], rng: &mut Rng) -> Vec<u8> {
    let mut f = frame.to_vec();
    if f.is_empty() {
        return f;
    }
    let kind = rng.below(8);
    match kind {
        0 => {
            let i = rng.below(f.len());
            f[i] ^= 1 << rng.below(8);
        }
        1 => {
            let i = rng.below(f.len());
            let j = rng.below(f.len());
            f[i] ^= 1 << rng.below(8);
            f[j] ^= 1 << rng.below(8);
        }
        2 => {
            let i = rng.below(f.len());
            f.remove(i);
        }
        3 => {
            let i = rng.range(0, f.len());
            f.insert(i, *rng.pick(&[0x00, 0x1b, 0x1a, 0x01, 0x55]));
        }
        4 => {
            let i = rng.below(f.len());
            f[i] = *rng.pick(&[0x00, 0x1b, 0x1a, 0x01, 0xff]);
        }
        5 => {
            // change the pad count byte
            if f.len() >= 3 {
                let n = f.len();
                f[n - 3] = *rng.pick(&[0, 1, 2, 3, 4, 5, 0x80, 0xff]);
            }
        }
        6 => {
            // insert / remove zero bytes just before the end sequence
            if f.len() >= 16 {
                let at = f.len() - 8;
                if rng.chance(1, 2) {
                    let k = rng.range(1, 4);
                    for _ in 0..k {
                        f.insert(at, 0);
                    }
                } else if f[at - 1] == 0 {
                    f.remove(at - 1);
                }
            }
        }
        _ => {
            let cut = rng.range(0, f.len());
            f.truncate(cut);
        }
    }
    if rng.chance(1, 2) && kind != 7 {
        fix_trailing_crc(&mut f);
    }
    f
}

#[derive(Clone, Copy, Debug, PartialEq, Eq, Hash)]
pub enum NoiseTail {
    Empty,
    Random,
    /// ends in k 0x1b bytes
    Ones(usize),
    /// ends in the first k bytes of the start sequence
    StartPrefix(usize),
    /// consists only of 0x1b
    AllOnes,
    /// tail of a real frame (end sequence + crc)
    FrameTail,
    /// concatenated fragments of the start sequence (false starts such as 1b1b1b1b 01 1b 010101)
    Fragments,
}

impl NoiseTail {
    pub fn name(&self) -> String {
        match self {
            NoiseTail::Empty => "empty".into(),
            NoiseTail::Random => "random".into(),
            NoiseTail::Ones(k) => format!("{}x1b", k),
            NoiseTail::StartPrefix(k) => format!("start[..{}]", k),
            NoiseTail::AllOnes => "all-1b".into(),
            NoiseTail::FrameTail => "frame-tail".into(),
            NoiseTail::Fragments => "fragments".into(),
        }
    }
}

pub fn all_noise_tails() -> Vec<NoiseTail> {
    let mut v = vec![NoiseTail::Empty, NoiseTail::Random, NoiseTail::AllOnes, NoiseTail::FrameTail, NoiseTail::Fragments, NoiseTail::Fragments];
    for k in 1..=9 {
        v.push(NoiseTail::Ones(k));
    }
    for k in 1..=7 {
        v.push(NoiseTail::StartPrefix(k));
    }
    v
}

/// noise string of the requested tail class with a body of about `body_len` bytes; always clean
/// (g ‖ START contains START only at |g|) - verified, with a deterministic fallback.
pub fn noise(rng: &mut Rng, tail: NoiseTail, body_len: usize) -> Vec<u8> {
    for _ in 0..20 {
        let mut g = if rng.chance(1, 2) {
            rng.biased_bytes(body_len, &[0x1b, 0x01, 0x00, 0x1a, 0x55])
        } else {
            rng.bytes(body_len)
        };
        match tail {
            NoiseTail::Empty => g.clear(),
            NoiseTail::Random => {
                if g.is_empty() {
                    g.push(rng.range(2, 250) as u8);
                }
                // a random tail must not end in 0x1b / 0x01 patterns by accident: force a neutral last byte
                let n = g.len();
                if g[n - 1] == 0x1b || g[n - 1] == 0x01 {
                    g[n - 1] = 0x55;
                }
            }
            NoiseTail::Ones(k) => {
                // exactly k trailing 0x1b
                if let Some(l) = g.last_mut() {
                    if *l == 0x1b {
                        *l = 0x55;
                    }
                } else {
                    // no body: all-ones noise of length k is the AllOnes class; put one neutral byte
                    g.push(0x55);
                }
                g.extend(std::iter::repeat(0x1b).take(k));
            }
            NoiseTail::StartPrefix(k) => {
                if let Some(l) = g.last_mut() {
                    if *l == 0x1b {
                        *l = 0x55;
                    }
                }
                g.extend_from_slice(&START[..k]);
            }
            NoiseTail::AllOnes => {
                g = vec![0x1b; body_len.max(1)];
            }
            NoiseTail::Fragments => {
                g.clear();
                let n = rng.range(1, 6);
                for _ in 0..n {
                    match rng.below(5) {
                        0 => g.extend(std::iter::repeat(0x1bu8).take(rng.range(1, 6))),
                        1 => g.extend(std::iter::repeat(0x01u8).take(rng.range(1, 4))),
                        2 => {
                            let k = rng.range(5, 7);
                            g.extend_from_slice(&START[..k]);
                        }
                        3 => {
                            let k = rng.range(1, 7);
                            g.extend_from_slice(&START[k..]);
                        }
                        _ => g.push(*rng.pick(&[0x02u8, 0x00, 0x1a, 0x55])),
                    }
                }
            }
            NoiseTail::FrameTail => {
                let f = ref_encode(&rng.bytes_in(0, 12));
                let k = rng.range(1, 8);
                g.extend_from_slice(&f[f.len() - k..]);
            }
        }
        if is_clean_noise(&g) {
            return g;
        }
    }
    match tail {
        NoiseTail::Empty => Vec::new(),
        _ => vec![0x55],
    }
}

/// classify the tail of an arbitrary noise string (observed, not intended)
pub fn classify_noise_tail(g: &[u8]) -> String {
    if g.is_empty() {
        return "empty".into();
    }
    if g.iter().all(|b| *b == 0x1b) {
        return "all-1b".into();
    }
    for k in (5..=7).rev() {
        if g.len() >= k && g[g.len() - k..] == START[..k] {
            return format!("start[..{}]", k);
        }
    }
    let ones = payload::trailing_run(g, 0x1b);
    if ones > 0 {
        return format!("{}x1b", ones.min(9));
    }
    "other".into()
}

/// Safe cut points of the canonical frame of payload `p`: offsets c in 8..|frame| such that, following the
/// frame's own structure (payload bytes; a literal escape sequence after every fourth consecutive 0x1b;
/// zero padding; the end escape sequence), no 0x1b run and no escape sequence is in progress after c bytes.
pub fn safe_cuts(p: &[u8]) -> (Vec<u8>, Vec<usize>) {
    let frame = ref_encode(p);
    let mut cuts = vec![8usize];
    let mut pos = 8usize;
    let mut run = 0;
    for &b in p {
        pos += 1;
        if b == 0x1b {
            run += 1;
            if run == 4 {
                // the literal escape sequence follows; after its 4 bytes nothing is in progress
                pos += 4;
                run = 0;
                cuts.push(pos);
            }
        } else {
            run = 0;
            cuts.push(pos);
        }
    }
    // padding zeros (only safe if the payload did not end inside a 0x1b run - then there is no padding
    // anyway or the run was completed by a non-0x1b zero byte)
    let body_end = frame.len() - 8;
    while pos < body_end {
        pos += 1;
        run = 0;
        cuts.push(pos);
    }
    let _ = run;
    cuts.retain(|c| *c <= body_end);
    cuts.sort();
    cuts.dedup();
    (frame, cuts)
}

/// a random stream drawn from all adversarial families
pub fn any_stream(rng: &mut Rng) -> Vec<u8> {
    match rng.below(11) {
        0 | 1 => adversarial_frame(rng),
        2 | 3 => {
            let f = ref_encode(&payload::any_payload(rng));
            mutate(&f, rng)
        }
        4 => {
            // splice: prefix of frame A at any cut + frame B
            let a = ref_encode(&payload::any_payload(rng));
            let b = if rng.chance(1, 2) {
                ref_encode(&payload::any_payload(rng))
            } else {
                adversarial_frame(rng)
            };
            let cut = rng.range(0, a.len());
            let mut s = a[..cut].to_vec();
            s.extend_from_slice(&b);
            s
        }
        5 => {
            // restart inside a frame, CRC of the outer frame recomputed
            let inner = ref_encode(&payload::biased_random(rng));
            let mut s = START.to_vec();
            s.extend_from_slice(&rng.biased_in(0, 12, &payload::SIGMA));
            s.extend_from_slice(&inner);
            s
        }
        6 => rng.biased_in(0, 80, &[0x1b, 0x01, 0x1a, 0x00]),
        7 => {
            // an (invalid-escape / broken) prefix directly followed by a frame that lost the first bytes of
            // its start sequence
            let mut s = START.to_vec();
            s.extend_from_slice(&rng.biased_in(0, 6, &[0x00, 0x55]));
            s.extend_from_slice(&ESC);
            let pl: [u8; 4] = match rng.below(4) {
                0 => [0x1b, 0x1b, 0x1b, 0x55],
                1 => [0x1b, 0x1b, 0x55, 0x1b],
                2 => [0x1b, 0x55, 0x00, 0x00],
                _ => [0x02, 0x1b, 0x1b, 0x1b],
            };
            s.extend_from_slice(&pl);
            let f = ref_encode(&payload::any_payload(rng));
            let k = rng.range(0, 4);
            s.extend_from_slice(&f[k..]);
            s
        }
        8 | 9 => {
            let k = rng.range(2, 8);
            concat_stream(rng, k)
        }
        _ => {
            // valid frame with its first 1..7 bytes missing, possibly after a few 0x1b
            let f = ref_encode(&payload::any_payload(rng));
            let k = rng.range(1, 7);
            let mut s = vec![0x1b; rng.below(4)];
            s.extend_from_slice(&f[k..]);
            s
        }
    }
}

/// concatenation of frames / adversarial frames / noise / garbage
pub fn concat_stream(rng: &mut Rng, pieces: usize) -> Vec<u8> {
    let mut s = Vec::new();
    for _ in 0..pieces {
        match rng.below(8) {
            0..=2 => s.extend_from_slice(&ref_encode(&payload::any_payload(rng))),
            3 => s.extend_from_slice(&adversarial_frame(rng)),
            4 => {
                let f = ref_encode(&payload::any_payload(rng));
                s.extend_from_slice(&mutate(&f, rng));
            }
            5 => {
                let tails = all_noise_tails();
                let t = *rng.pick(&tails);
                let l = rng.range(0, 20);
                s.extend_from_slice(&noise(rng, t, l));
            }
            6 => {
                let f = ref_encode(&payload::any_payload(rng));
                let cut = rng.range(0, f.len());
                s.extend_from_slice(&f[..cut]);
            }
            _ => s.extend_from_slice(&rng.biased_in(0, 16, &[0x1b, 0x01, 0x1a, 0x00])),
        }
    }
    s
}

pub const SIGMA2: [u8; 5] = [0x1b, 0x00, 0x1a, 0x01, 0x55];

/// exhaustive small adversarial frames: START + body + 1b1b1b1b 1a + pad + correct CRC
pub fn small_frame(body: &[u8], pad: u8) -> Vec<u8> {
    let mut out = START.to_vec();
    out.extend_from_slice(body);
    out.extend_from_slice(&ESC);
    out.push(0x1a);
    out.push(pad);
    let from = last_start(&out).unwrap_or(0);
    let crc = crc16_x25(&out[from..]);
    out.push((crc & 0xff) as u8);
    out.push((crc >> 8) as u8);
    out
}
