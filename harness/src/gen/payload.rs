//! Payload generators for the transport layer.

use crate::refm::transport::{ESC, START};
use crate::rng::Rng;

pub const SIGMA: [u8; 5] = [0x1b, 0x00, 0x1a, 0x01, 0x7f];

/// number of strings over an alphabet of size k with length <= n
pub fn count_upto(k: u64, n: u32) -> u64 {
    (0..=n).map(|l| k.pow(l)).sum()
}

/// the `idx`-th string (shortest first) over `alphabet`
pub fn nth_string(alphabet: &[u8], mut idx: u64) -> Vec<u8> {
    let k = alphabet.len() as u64;
    let mut len = 0u32;
    loop {
        let c = k.pow(len);
        if idx < c {
            break;
        }
        idx -= c;
        len += 1;
    }
    let mut v = vec![0u8; len as usize];
    for i in (0..len as usize).rev() {
        v[i] = alphabet[(idx % k) as usize];
        idx /= k;
    }
    v
}

/// size classes for payload prefixes
pub const SIZE_CLASSES: &[(usize, usize)] = &[
    (0, 40),
    (250, 260),
    (508, 516),
    (1020, 1030),
    (8185, 8195),
];
pub const BIG_SIZE_CLASSES: &[(usize, usize)] = &[(65530, 65545), (69990, 70000)];

/// tail-structured payload: random prefix, optional literal escape, a 0x1b run, a 0x00 run (either order)
pub fn tail_structured(rng: &mut Rng, big: bool) -> Vec<u8> {
    let (lo, hi) = if big {
        *rng.pick(BIG_SIZE_CLASSES)
    } else if rng.chance(4, 5) {
        SIZE_CLASSES[0]
    } else {
        *rng.pick(SIZE_CLASSES)
    };
    let n = rng.range(lo, hi);
    let mut p = if rng.chance(1, 2) {
        rng.biased_bytes(n, &SIGMA)
    } else {
        rng.bytes(n)
    };
    if rng.chance(1, 3) {
        p.extend_from_slice(&ESC);
    }
    let ones = rng.range(0, 13);
    let zeros = rng.range(0, 7);
    if rng.chance(1, 2) {
        p.extend(std::iter::repeat(0x1b).take(ones));
        p.extend(std::iter::repeat(0x00).take(zeros));
    } else {
        p.extend(std::iter::repeat(0x00).take(zeros));
        p.extend(std::iter::repeat(0x1b).take(ones));
    }
    // keep the total within the largest menu capacity
    p.truncate(70000);
    p
}

/// look-alikes: start / end sequences and their proper prefixes / suffixes spliced at random offsets,
/// 0x1b runs of every length 1..20 at every offset mod 4
pub fn look_alike(rng: &mut Rng) -> Vec<u8> {
    let n = rng.range(0, 48);
    let mut p = rng.biased_bytes(n, &SIGMA);
    let pieces = rng.range(1, 3);
    for _ in 0..pieces {
        let piece: Vec<u8> = match rng.below(6) {
            0 => {
                let k = rng.range(1, 8);
                START[..k].to_vec()
            }
            1 => {
                let k = rng.range(0, 7);
                START[k..].to_vec()
            }
            2 => {
                // end sequence look-alike
                let mut e = ESC.to_vec();
                e.push(0x1a);
                e.push(rng.below(5) as u8);
                e.extend_from_slice(&rng.bytes(2));
                let k = rng.range(1, e.len());
                e[..k].to_vec()
            }
            3 => vec![0x1b; rng.range(1, 20)],
            4 => {
                let mut e = vec![0x1b; rng.range(4, 9)];
                e.push(0x1a);
                e
            }
            _ => {
                let mut e = START.to_vec();
                e.extend_from_slice(&START);
                e
            }
        };
        let at = rng.range(0, p.len());
        p.splice(at..at, piece);
    }
    p
}

pub fn biased_random(rng: &mut Rng) -> Vec<u8> {
    let n = if rng.chance(9, 10) { rng.range(0, 64) } else { rng.range(64, 1200) };
    rng.biased_bytes(n, &SIGMA)
}

/// mixed draw from the random payload families (small sizes dominate)
pub fn any_payload(rng: &mut Rng) -> Vec<u8> {
    match rng.below(10) {
        0..=3 => tail_structured(rng, false),
        4..=6 => look_alike(rng),
        _ => biased_random(rng),
    }
}

/// trailing run of byte `b`
pub fn trailing_run(p: &[u8], b: u8) -> usize {
    p.iter().rev().take_while(|x| **x == b).count()
}

/// longest run of 0x1b
pub fn max_run_1b(p: &[u8]) -> usize {
    let mut best = 0;
    let mut cur = 0;
    for &b in p {
        if b == 0x1b {
            cur += 1;
            best = best.max(cur);
        } else {
            cur = 0;
        }
    }
    best
}

pub fn size_class(n: usize) -> &'static str {
    if n < 256 {
        "<256"
    } else if n < 65536 {
        "256..65535"
    } else {
        ">=65536"
    }
}
