//! Corruptions of valid SML files, each available with stale and with recomputed message checksums.

use crate::refm::sml::{fix_crcs, Encoded, OffsetMap, Role};
use crate::refm::tlf::{build_tlf_raw, ty_bits, RTy};
use crate::rng::Rng;

#[derive(Clone, Debug)]
pub struct Corrupted {
    pub bytes: Vec<u8>,
    pub what: String,
    /// class of the corruption (for coverage accounting)
    pub class: &'static str,
    pub crc_fixed: bool,
}

/// declared lengths used for the length-manipulation family (nibble values)
pub const HUGE: &[u128] = &[
    1 << 8,
    (1 << 16) - 1,
    1 << 16,
    1 << 24,
    1 << 31,
    (1 << 32) - 3,
    (1 << 32) - 2,
    (1 << 32) - 1,
    1 << 32,
    (1 << 32) + 10,
    1 << 36,
    (1 << 44) - 1,
    (1 << 64) + 6,
    (1 << 64) + 2,
    (1 << 68) + 7,
    (1 << 100) + 1,
    (1 << 124) + 6,
];

fn finish(mut bytes: Vec<u8>, map: &OffsetMap, fix: bool, what: String, class: &'static str) -> Corrupted {
    if fix {
        fix_crcs(&mut bytes, map);
    }
    Corrupted {
        bytes,
        what,
        class,
        crc_fixed: fix,
    }
}

pub fn flip(e: &Encoded, off: usize, mask: u8, fix: bool) -> Corrupted {
    let mut b = e.bytes.clone();
    b[off] ^= mask;
    finish(b, &e.map, fix, format!("flip@{}^{:02x}", off, mask), "flip")
}

pub fn set_byte(e: &Encoded, off: usize, val: u8, fix: bool) -> Corrupted {
    let mut b = e.bytes.clone();
    b[off] = val;
    finish(b, &e.map, fix, format!("set@{}={:02x}", off, val), "set")
}

pub fn delete(e: &Encoded, off: usize, n: usize, fix: bool) -> Corrupted {
    let mut b = e.bytes.clone();
    let n = n.min(b.len() - off);
    b.drain(off..off + n);
    let mut map = e.map.clone();
    map.deleted(off, n);
    finish(b, &map, fix, format!("delete@{}+{}", off, n), "delete")
}

pub fn insert(e: &Encoded, off: usize, ins: &[u8], fix: bool) -> Corrupted {
    let mut b = e.bytes.clone();
    b.splice(off..off, ins.iter().copied());
    let mut map = e.map.clone();
    map.inserted(off, ins.len());
    finish(
        b,
        &map,
        fix,
        format!("insert@{}:{}", off, crate::hexu::hex(ins)),
        "insert",
    )
}

pub fn truncate(e: &Encoded, at: usize) -> Corrupted {
    Corrupted {
        bytes: e.bytes[..at].to_vec(),
        what: format!("truncate@{}", at),
        class: "truncate",
        crc_fixed: false,
    }
}

pub fn extend(e: &Encoded, tail: &[u8]) -> Corrupted {
    let mut b = e.bytes.clone();
    b.extend_from_slice(tail);
    Corrupted {
        bytes: b,
        what: format!("extend:{}", crate::hexu::hex(tail)),
        class: "extend",
        crc_fixed: false,
    }
}

/// Replace the TLF at index `ti` of the offset map by `new_tlf` (the field's data bytes are kept).
pub fn replace_tlf(e: &Encoded, ti: usize, new_tlf: &[u8], fix: bool, class: &'static str) -> Corrupted {
    let t = e.map.tlfs[ti];
    let mut b = e.bytes.clone();
    b.splice(t.off..t.off + t.size, new_tlf.iter().copied());
    let mut map = e.map.clone();
    if new_tlf.len() > t.size {
        map.inserted(t.off + t.size, new_tlf.len() - t.size);
    } else if new_tlf.len() < t.size {
        map.deleted(t.off + new_tlf.len(), t.size - new_tlf.len());
    }
    finish(
        b,
        &map,
        fix,
        format!("tlf#{}({:?})@{}:={}", ti, t.role, t.off, crate::hexu::hex(new_tlf)),
        class,
    )
}

/// all structural substitutions for the TLF at `ti`: arity / length +-1, other type nibbles,
/// and the huge declared lengths (8..12 byte TLFs)
pub fn tlf_substitutions(e: &Encoded, ti: usize) -> Vec<(Vec<u8>, &'static str)> {
    let t = e.map.tlfs[ti];
    let mut v: Vec<(Vec<u8>, &'static str)> = Vec::new();
    let first = e.bytes[t.off];
    if t.size == 1 {
        let len = first & 0x0f;
        let ty = first & 0x70;
        if len < 15 {
            v.push((vec![ty | (len + 1)], "len+1"));
        }
        if len > 0 {
            v.push((vec![ty | (len - 1)], "len-1"));
        }
        for other in [0x00u8, 0x40, 0x50, 0x60, 0x70, 0x10, 0x20, 0x30] {
            if other != ty {
                v.push((vec![other | len], "type"));
            }
        }
        // continuation bit set on a single-byte TLF (swallows the next byte as length nibble)
        v.push((vec![first | 0x80], "contbit"));
    }
    let tyb = ty_bits(t.ty);
    // the same length behind a very long TLF (hundreds of leading zero groups): still a VALID field
    {
        let cur = if t.ty == RTy::List { (first & 0x0f) as usize } else { t.data_len };
        if t.size == 1 || t.ty != RTy::List {
            for nb in [16usize, 255, 256, 257, 300] {
                let value = if t.ty == RTy::List { cur as u128 } else { (t.data_len + nb) as u128 };
                if t.ty == RTy::Bool {
                    continue;
                }
                if let Some(tl) = build_tlf_raw(tyb, value, nb) {
                    v.push((tl, "longpad"));
                }
            }
        }
    }
    for &h in HUGE {
        for extra in [0usize, 2] {
            let mut n = 1;
            while n < 32 && h >> (4 * n) != 0 {
                n += 1;
            }
            if let Some(tl) = build_tlf_raw(tyb, h, n + extra) {
                v.push((tl, "huge"));
            }
        }
    }
    v
}

/// well-formed primitive fields used to replace a whole field (TLF + data) so that everything behind it
/// stays aligned: the grammar-aware splice that puts type / width / variant checks behind a valid checksum
pub fn substitute_fields() -> Vec<Vec<u8>> {
    vec![
        vec![0x01],
        vec![0x02, 0x41],
        vec![0x05, 0x41, 0x42, 0x43, 0x44],
        vec![0x80, 0x02],
        vec![0x42, 0x00],
        vec![0x42, 0x01],
        vec![0x62, 0x2a],
        vec![0x63, 0x01, 0x02],
        vec![0x64, 0x01, 0x02, 0x03],
        vec![0x65, 0x01, 0x02, 0x03, 0x04],
        vec![0x66, 0x01, 0x02, 0x03, 0x04, 0x05],
        vec![0x69, 0x01, 0x02, 0x03, 0x04, 0x05, 0x06, 0x07, 0x08],
        vec![0x6a, 0x01, 0x02, 0x03, 0x04, 0x05, 0x06, 0x07, 0x08, 0x09],
        vec![0x52, 0xfe],
        vec![0x53, 0xff, 0xfe],
        vec![0x55, 0x80, 0x00, 0x00, 0x01],
        vec![0x59, 0xff, 0xff, 0xff, 0xff, 0xff, 0xff, 0xff, 0xfe],
        vec![0x72, 0x62, 0x01, 0x65, 0x00, 0x00, 0x00, 0x2a],
        vec![0x72, 0x62, 0x01, 0x62, 0x2a],
        vec![0x72, 0x62, 0x02, 0x62, 0x2a],
        vec![0x71, 0x01],
        vec![0x70],
    ]
}

/// Replace the whole primitive field at TLF index `ti` (TLF + its data bytes) by `field`.
pub fn replace_field(e: &Encoded, ti: usize, field: &[u8], fix: bool) -> Corrupted {
    let t = e.map.tlfs[ti];
    let old_len = t.size + t.data_len;
    let mut b = e.bytes.clone();
    b.splice(t.off..t.off + old_len, field.iter().copied());
    let mut map = e.map.clone();
    if field.len() > old_len {
        map.inserted(t.off + old_len, field.len() - old_len);
    } else if field.len() < old_len {
        map.deleted(t.off + field.len(), old_len - field.len());
    }
    finish(
        b,
        &map,
        fix,
        format!("field#{}({:?})@{}:={}", ti, t.role, t.off, crate::hexu::hex(field)),
        "field-subst",
    )
}

/// Replace a whole standard time structure (`72 62 01 6x ..`, TLF index `ti` has role TimeList) by `field`.
pub fn replace_time_struct(e: &Encoded, ti: usize, field: &[u8], fix: bool) -> Option<Corrupted> {
    let t = e.map.tlfs[ti];
    if t.role != Role::TimeList || ti + 2 >= e.map.tlfs.len() {
        return None;
    }
    let v = e.map.tlfs[ti + 2];
    if e.map.tlfs[ti + 1].role != Role::TimeTag || v.role != Role::TimeVal {
        return None;
    }
    let end = v.off + v.size + v.data_len;
    let old_len = end - t.off;
    let mut b = e.bytes.clone();
    b.splice(t.off..end, field.iter().copied());
    let mut map = e.map.clone();
    if field.len() > old_len {
        map.inserted(end, field.len() - old_len);
    } else if field.len() < old_len {
        map.deleted(t.off + field.len(), old_len - field.len());
    }
    Some(finish(b, &map, fix, format!("time#{}@{}:={}", ti, t.off, crate::hexu::hex(field)), "field-subst"))
}

/// a random single corruption of an encoded file
pub fn random_corruption(e: &Encoded, rng: &mut Rng) -> Corrupted {
    let n = e.bytes.len();
    let fix = rng.chance(1, 2);
    if n == 0 {
        return extend(e, &rng.bytes_in(1, 6));
    }
    match rng.below(14) {
        12 | 13 => {
            let prim: Vec<usize> = (0..e.map.tlfs.len()).filter(|i| e.map.tlfs[*i].ty != RTy::List && e.map.tlfs[*i].role != Role::Crc).collect();
            if prim.is_empty() {
                return flip(e, rng.below(n), 1 << rng.below(8), fix);
            }
            let ti = *rng.pick(&prim);
            let subs = substitute_fields();
            let f = rng.pick(&subs).clone();
            replace_field(e, ti, &f, rng.chance(4, 5))
        }
        0 | 1 => flip(e, rng.below(n), 1 << rng.below(8), fix),
        2 => set_byte(e, rng.below(n), *rng.pick(&[0x00, 0x01, 0x62, 0x72, 0x76, 0x77, 0xff, 0x80, 0x0f]), fix),
        3 => delete(e, rng.below(n), rng.range(1, 3), fix),
        4 => {
            let ins = match rng.below(4) {
                0 => vec![0x01],
                1 => vec![0x00],
                2 => vec![0x62, rng.byte()],
                _ => rng.bytes_in(1, 3),
            };
            insert(e, rng.range(0, n), &ins, fix)
        }
        5 => truncate(e, rng.below(n)),
        6 => {
            let tail = match rng.below(4) {
                0 => vec![0x00],
                1 => vec![0x76],
                2 => e.bytes[..rng.range(1, n.min(12))].to_vec(),
                _ => rng.bytes_in(1, 5),
            };
            extend(e, &tail)
        }
        _ => {
            // TLF substitution at a random TLF position
            let ti = rng.below(e.map.tlfs.len());
            let subs = tlf_substitutions(e, ti);
            let (tl, cls) = rng.pick(&subs).clone();
            replace_tlf(e, ti, &tl, fix, cls)
        }
    }
}

/// named structural faults behind a valid checksum ("fault knobs")
pub fn structural_faults(e: &Encoded, rng: &mut Rng) -> Vec<Corrupted> {
    let mut v = Vec::new();
    for (mi, m) in e.map.msgs.iter().enumerate() {
        if m.crc_size != 3 {
            v.push(set_byte(e, m.end_off, 0x01, false));
            continue;
        }
        // bad end marker (checksum is not affected by the end marker)
        v.push(set_byte(e, m.end_off, *rng.pick(&[0x01, 0x76, 0xff]), false));
        // checksum off by one bit in either byte
        v.push(flip(e, m.crc_off + 1, 1 << rng.below(8), false));
        v.push(flip(e, m.crc_off + 2, 1 << rng.below(8), false));
        // checksum bytes transposed (a specific two-byte corruption)
        if e.bytes[m.crc_off + 1] != e.bytes[m.crc_off + 2] {
            let mut b = e.bytes.clone();
            b.swap(m.crc_off + 1, m.crc_off + 2);
            v.push(finish(b, &e.map, false, format!("crc-swapped@{}", m.crc_off), "crc-swapped"));
        }
        // checksum re-encoded in the one-byte form although its first byte is not zero (only `hi` is kept)
        if e.bytes[m.crc_off + 1] != 0 {
            let mut b = e.bytes.clone();
            let hi = b[m.crc_off + 2];
            b.splice(m.crc_off..m.crc_off + 3, [0x62, hi]);
            v.push(Corrupted { bytes: b, what: format!("crc-narrowed@{}", m.crc_off), class: "crc-narrowed", crc_fixed: false });
        }
        // a checksum field that is exactly zero ("no checksum")
        if e.bytes[m.crc_off + 1] != 0 || e.bytes[m.crc_off + 2] != 0 {
            let mut b = e.bytes.clone();
            b[m.crc_off + 1] = 0;
            b[m.crc_off + 2] = 0;
            v.push(finish(b, &e.map, false, format!("crc-zero@{}", m.crc_off), "crc-zero"));
            let mut b = e.bytes.clone();
            b.splice(m.crc_off..m.crc_off + 3, [0x62, 0x00]);
            v.push(Corrupted { bytes: b, what: format!("crc-zero-narrow@{}", m.crc_off), class: "crc-zero", crc_fixed: false });
        }
        // checksum TLF declares another width / type
        v.push(set_byte(e, m.crc_off, 0x62, false));
        v.push(set_byte(e, m.crc_off, 0x64, false));
        v.push(set_byte(e, m.crc_off, 0x53, false));
        let _ = mi;
    }
    for (ti, t) in e.map.tlfs.iter().enumerate() {
        if t.role == Role::BodyTag {
            // unknown body tag, checksum recomputed
            let mut b = e.bytes.clone();
            let off = t.off + t.size + t.data_len - 1;
            b[off] ^= 0x02;
            v.push(finish(b, &e.map, true, format!("bodytag@{}", off), "variant"));
        }
        if t.role == Role::BodyTag {
            // the same tag in a wider encoding whose high part is not zero (checksum recomputed)
            let tag = &e.bytes[t.off + t.size..t.off + t.size + t.data_len];
            let low: Vec<u8> = if tag.len() >= 2 { tag[tag.len() - 2..].to_vec() } else { vec![0, tag[0]] };
            for hi in [vec![0x01u8], vec![0x00, 0x01], vec![0xff, 0xff], vec![0x80, 0x00]] {
                let mut f = vec![0x60 | (hi.len() + 2 + 1) as u8];
                f.extend_from_slice(&hi);
                f.extend_from_slice(&low);
                v.push(replace_field(e, ti, &f, true));
            }
        }
        if t.role == Role::TimeTag || t.role == Role::ValueListTag {
            // the same tag value in a wider (ill-typed) unsigned, checksum recomputed
            for f in [vec![0x63u8, 0x00, 0x01], vec![0x64, 0x00, 0x00, 0x01], vec![0x65, 0x00, 0x00, 0x00, 0x01], vec![0x52, 0x01]] {
                v.push(replace_field(e, ti, &f, true));
            }
        }
        if t.role == Role::TimeTag || t.role == Role::ValueListTag {
            let mut b = e.bytes.clone();
            let off = t.off + t.size;
            b[off] = *rng.pick(&[0u8, 2, 3, 0xff]);
            v.push(finish(b, &e.map, true, format!("choicetag@{}", off), "variant"));
        }
        if t.ty == RTy::List && t.size == 1 {
            let first = e.bytes[t.off];
            let len = first & 0x0f;
            if len < 15 {
                v.push(replace_tlf(e, ti, &[0x70 | (len + 1)], true, "arity+1"));
            }
            if len > 0 {
                v.push(replace_tlf(e, ti, &[0x70 | (len - 1)], true, "arity-1"));
            }
        }
    }
    v
}
