//! Workload generators. All are pure functions of a PRNG state.
pub mod payload;
pub mod stream;
pub mod smlgen;
pub mod corrupt;
