//! Independent reference models (oracles). None of them shares code with sml-rs.
pub mod capvec;
pub mod crc;
pub mod sml;
pub mod tlf;
pub mod transport;
