//! Bit-serial CRC-16/X.25 (reflected poly 0x8408, init 0xFFFF, xorout 0xFFFF).

pub fn crc16_x25(data: &[u8]) -> u16 {
    let mut crc: u16 = 0xFFFF;
    for &b in data {
        crc ^= b as u16;
        for _ in 0..8 {
            if crc & 1 != 0 {
                crc = (crc >> 1) ^ 0x8408;
            } else {
                crc >>= 1;
            }
        }
    }
    crc ^ 0xFFFF
}

/// incremental variant used by generators that patch streams
pub struct Crc(u16);
impl Crc {
    pub fn new() -> Self {
        Crc(0xFFFF)
    }
    pub fn update(&mut self, data: &[u8]) {
        for &b in data {
            self.0 ^= b as u16;
            for _ in 0..8 {
                if self.0 & 1 != 0 {
                    self.0 = (self.0 >> 1) ^ 0x8408;
                } else {
                    self.0 >>= 1;
                }
            }
        }
    }
    pub fn get(&self) -> u16 {
        self.0 ^ 0xFFFF
    }
}

pub fn selftest() -> Result<(), String> {
    if crc16_x25(b"123456789") != 0x906E {
        return Err(format!("crc16_x25 check value: got {:04x}", crc16_x25(b"123456789")));
    }
    // frame from the repository documentation: payload 12345678 -> crc bytes b8 7b (little endian)
    let f = [
        0x1b, 0x1b, 0x1b, 0x1b, 0x01, 0x01, 0x01, 0x01, 0x12, 0x34, 0x56, 0x78, 0x1b, 0x1b, 0x1b, 0x1b, 0x1a, 0x00,
    ];
    if crc16_x25(&f).to_le_bytes() != [0xb8, 0x7b] {
        return Err("crc16_x25 does not reproduce the documented frame checksum".into());
    }
    Ok(())
}
