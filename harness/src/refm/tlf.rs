//! Reference decoder for SML type-length fields and primitive values.
//!
//! TLF byte: bit7 = "another TLF byte follows", bits 6..4 = type (first byte only; must be 000 in
//! continuation bytes), bits 3..0 = 4 bits of the length. The length is the concatenation of all
//! 4-bit groups (most significant first). For every type except "list of" it includes the TLF's own
//! size, which has to be subtracted.

#[derive(Clone, Copy, Debug, PartialEq, Eq, Hash)]
pub enum RTy {
    Octet,
    Bool,
    Int,
    Uint,
    List,
}

#[derive(Clone, Copy, Debug, PartialEq, Eq, Hash)]
pub enum TlfErr {
    /// input ended inside the TLF
    Truncated,
    /// type code 001, 010 or 011 in the first byte
    ReservedType,
    /// boolean with continuation bit
    ReservedBool,
    /// non-zero type bits in a continuation byte
    NextByteType,
    /// value does not fit 32 bits
    Overflow,
    /// value smaller than the TLF's own size (non-list types)
    Underflow,
}

#[derive(Clone, Copy, Debug, PartialEq, Eq)]
pub struct RTlf {
    pub ty: RTy,
    /// payload length in bytes (number of elements for lists)
    pub len: u32,
    /// bytes the TLF itself occupies
    pub size: usize,
}

/// Errors are reported in byte order (the first offending byte decides), which is also the natural
/// reading of the format; the *class* of error is not used for verdicts.
pub fn ref_tlf(input: &[u8]) -> Result<RTlf, TlfErr> {
    let b0 = *input.first().ok_or(TlfErr::Truncated)?;
    let ty = match (b0 >> 4) & 7 {
        0b000 => RTy::Octet,
        0b100 => RTy::Bool,
        0b101 => RTy::Int,
        0b110 => RTy::Uint,
        0b111 => RTy::List,
        _ => return Err(TlfErr::ReservedType),
    };
    let mut more = b0 & 0x80 != 0;
    if ty == RTy::Bool && more {
        return Err(TlfErr::ReservedBool);
    }
    let mut val: u128 = (b0 & 0x0f) as u128;
    let mut size = 1usize;
    while more {
        let b = *input.get(size).ok_or(TlfErr::Truncated)?;
        if (b >> 4) & 7 != 0 {
            return Err(TlfErr::NextByteType);
        }
        size += 1;
        val = val * 16 + (b & 0x0f) as u128;
        if val > u32::MAX as u128 {
            return Err(TlfErr::Overflow);
        }
        more = b & 0x80 != 0;
    }
    if ty != RTy::List {
        if val < size as u128 {
            return Err(TlfErr::Underflow);
        }
        val -= size as u128;
    }
    Ok(RTlf {
        ty,
        len: val as u32,
        size,
    })
}

/// big-endian two's complement / plain value of 1..=8 bytes
pub fn ref_int(bytes: &[u8], signed: bool) -> i128 {
    assert!(!bytes.is_empty() && bytes.len() <= 8);
    let mut v: i128 = 0;
    for &b in bytes {
        v = v * 256 + b as i128;
    }
    if signed && bytes[0] & 0x80 != 0 {
        v -= 1i128 << (8 * bytes.len());
    }
    v
}

/// narrowest standard width (1, 2, 4, 8 bytes) holding an encoded size of `n` bytes
pub fn width_class(n: usize) -> Option<usize> {
    match n {
        1 => Some(1),
        2 => Some(2),
        3 | 4 => Some(4),
        5..=8 => Some(8),
        _ => None,
    }
}

/// Builds a TLF for type `ty` whose *nibble value* is `value`, using exactly `nbytes` bytes
/// (leading zero groups if nbytes is larger than needed). None if it does not fit.
pub fn build_tlf_raw(ty_bits: u8, value: u128, nbytes: usize) -> Option<Vec<u8>> {
    if nbytes == 0 {
        return None;
    }
    if nbytes < 32 && value >> (4 * nbytes) != 0 {
        return None;
    }
    let mut out = Vec::with_capacity(nbytes);
    for i in 0..nbytes {
        let shift = 4 * (nbytes - 1 - i);
        // any number of leading zero groups is allowed (a TLF may span arbitrarily many bytes)
        let nib = if shift >= 128 { 0 } else { ((value >> shift) & 0xf) as u8 };
        let more = if i + 1 < nbytes { 0x80 } else { 0 };
        let t = if i == 0 { (ty_bits & 7) << 4 } else { 0 };
        out.push(more | t | nib);
    }
    Some(out)
}

pub fn ty_bits(ty: RTy) -> u8 {
    match ty {
        RTy::Octet => 0b000,
        RTy::Bool => 0b100,
        RTy::Int => 0b101,
        RTy::Uint => 0b110,
        RTy::List => 0b111,
    }
}

/// Valid TLF for a field of type `ty` holding `len` payload bytes (elements for lists) with
/// `extra` additional leading TLF bytes beyond the minimum.
pub fn build_tlf(ty: RTy, len: usize, extra: usize) -> Vec<u8> {
    let mut n = 1usize;
    loop {
        let value = if ty == RTy::List { len as u128 } else { (len + n) as u128 };
        if value >> (4 * n) == 0 {
            // minimal number of bytes found; add the extras (value changes for non-list types)
            let mut m = n + extra;
            loop {
                let value = if ty == RTy::List { len as u128 } else { (len + m) as u128 };
                if let Some(v) = build_tlf_raw(ty_bits(ty), value, m) {
                    return v;
                }
                m += 1;
            }
        }
        n += 1;
    }
}

pub fn selftest() -> Result<(), String> {
    let chk = |b: &[u8], exp: Result<(RTy, u32, usize), TlfErr>| -> Result<(), String> {
        let got = ref_tlf(b).map(|t| (t.ty, t.len, t.size));
        if got != exp {
            return Err(format!("ref_tlf({:02x?}) = {:?}, expected {:?}", b, got, exp));
        }
        Ok(())
    };
    // vectors from the repository's tlf tests
    chk(&[0x01], Ok((RTy::Octet, 0, 1)))?;
    chk(&[0x41], Ok((RTy::Bool, 0, 1)))?;
    chk(&[0x51], Ok((RTy::Int, 0, 1)))?;
    chk(&[0x61], Ok((RTy::Uint, 0, 1)))?;
    chk(&[0x70], Ok((RTy::List, 0, 1)))?;
    chk(&[0x08], Ok((RTy::Octet, 7, 1)))?;
    chk(&[0x0f], Ok((RTy::Octet, 14, 1)))?;
    chk(&[0x00], Err(TlfErr::Underflow))?;
    chk(&[0x7f], Ok((RTy::List, 15, 1)))?;
    chk(&[0x82, 0x03], Ok((RTy::Octet, 0x23 - 2, 2)))?;
    chk(&[0x82, 0x83, 0x0f], Ok((RTy::Octet, 0x23f - 3, 3)))?;
    chk(&[0xf2, 0x03], Ok((RTy::List, 0x23, 2)))?;
    chk(&[0xf2, 0x83, 0x0f], Ok((RTy::List, 0x23f, 3)))?;
    chk(&[0xc0], Err(TlfErr::ReservedBool))?;
    chk(&[0x10], Err(TlfErr::ReservedType))?;
    chk(&[0x82, 0x10], Err(TlfErr::NextByteType))?;
    chk(&[0x82], Err(TlfErr::Truncated))?;
    chk(&[0x81, 0x80, 0x80, 0x80, 0x80, 0x80, 0x80, 0x80, 0x0a], Err(TlfErr::Overflow))?;
    chk(&[0xff, 0x8f, 0x8f, 0x8f, 0x8f, 0x8f, 0x8f, 0x0f], Ok((RTy::List, u32::MAX, 8)))?;
    if build_tlf(RTy::Octet, 26, 0) != vec![0x81, 0x0c] {
        return Err("build_tlf(octet,26)".into());
    }
    if build_tlf(RTy::Octet, 0, 1) != vec![0x80, 0x02] {
        return Err("build_tlf(octet,0,+1)".into());
    }
    if build_tlf(RTy::List, 16, 0) != vec![0xf1, 0x00] {
        return Err("build_tlf(list,16)".into());
    }
    if ref_int(&[0xec, 0x78], true) != -5000 || ref_int(&[0xff, 0xff, 0xec, 0x78], false) != 0xffffec78 {
        return Err("ref_int".into());
    }
    // round trip of the builder through the reference decoder
    for ty in [RTy::Octet, RTy::Int, RTy::Uint, RTy::List] {
        for len in [0usize, 1, 13, 14, 15, 16, 17, 240, 255, 256, 4095, 70000] {
            for extra in 0..4 {
                let t = build_tlf(ty, len, extra);
                let r = ref_tlf(&t).map_err(|e| format!("{:?}", e))?;
                if r.ty != ty || r.len as usize != len || r.size != t.len() {
                    return Err(format!("build_tlf/ref_tlf round trip {:?} {} {}", ty, len, extra));
                }
            }
        }
    }
    Ok(())
}
