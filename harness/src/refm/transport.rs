//! Literal transcription of SML Transport v1 framing.

use super::crc::crc16_x25;

pub const START: [u8; 8] = [0x1b, 0x1b, 0x1b, 0x1b, 0x01, 0x01, 0x01, 0x01];
pub const ESC: [u8; 4] = [0x1b, 0x1b, 0x1b, 0x1b];

/// Body of the canonical frame (escaped payload, without padding).
pub fn escape_payload(p: &[u8]) -> Vec<u8> {
    let mut out = Vec::with_capacity(p.len() + p.len() / 4 + 4);
    let mut run = 0;
    for &b in p {
        out.push(b);
        if b == 0x1b {
            run += 1;
            if run == 4 {
                out.extend_from_slice(&ESC);
                run = 0;
            }
        } else {
            run = 0;
        }
    }
    out
}

/// The canonical Transport v1 frame of payload `p`.
pub fn ref_encode(p: &[u8]) -> Vec<u8> {
    let mut out = Vec::with_capacity(p.len() + 24 + p.len() / 4);
    out.extend_from_slice(&START);
    out.extend_from_slice(&escape_payload(p));
    let pad = (4 - out.len() % 4) % 4;
    for _ in 0..pad {
        out.push(0);
    }
    out.extend_from_slice(&ESC);
    out.push(0x1a);
    out.push(pad as u8);
    let crc = crc16_x25(&out);
    out.push((crc & 0xff) as u8);
    out.push((crc >> 8) as u8);
    out
}

pub fn ref_frame_len(p: &[u8]) -> usize {
    let e = 8 + escape_payload(p).len();
    e + (4 - e % 4) % 4 + 8
}

/// Does `consumed` end with exactly the canonical frame of `m`?
pub fn ends_with_canonical_frame(consumed: &[u8], m: &[u8]) -> bool {
    let f = ref_encode(m);
    consumed.len() >= f.len() && consumed[consumed.len() - f.len()..] == f[..]
}

/// independent naive substring search
pub fn find_all(hay: &[u8], needle: &[u8]) -> Vec<usize> {
    let mut v = Vec::new();
    if needle.is_empty() || hay.len() < needle.len() {
        return v;
    }
    for i in 0..=hay.len() - needle.len() {
        if &hay[i..i + needle.len()] == needle {
            v.push(i);
        }
    }
    v
}

/// `g` qualifies as noise iff g ‖ START contains START only at offset |g|.
pub fn is_clean_noise(g: &[u8]) -> bool {
    let mut s = g.to_vec();
    s.extend_from_slice(&START);
    find_all(&s, &START) == vec![g.len()]
}

pub fn selftest() -> Result<(), String> {
    let cases: [(&[u8], &str); 6] = [
        (&[0x12, 0x34, 0x56, 0x78], "1b1b1b1b0101010112345678 1b1b1b1b1a00b87b"),
        (&[], "1b1b1b1b01010101 1b1b1b1b1a00c6e5"),
        (&[0x12, 0x34, 0x56], "1b1b1b1b0101010112345600 1b1b1b1b1a0191a5"),
        (&[0x12, 0x1b, 0x1b, 0x1b, 0x1b], "1b1b1b1b01010101 121b1b1b1b1b1b1b1b000000 1b1b1b1b1a03be25"),
        (&[0x12, 0x1b, 0x1b, 0x1b, 0xff], "1b1b1b1b01010101 121b1b1bff000000 1b1b1b1b1a0324d9"),
        (&[0x12, 0x34, 0x56, 0x78, 0x12, 0x34, 0x1b, 0x1b], "1b1b1b1b01010101 1234567812341b1b 1b1b1b1b1a001ac5"),
    ];
    for (p, h) in cases {
        let exp = crate::hexu::unhex(h).unwrap();
        let got = ref_encode(p);
        if got != exp {
            return Err(format!(
                "ref_encode({}) = {} but the repository's test vector says {}",
                crate::hexu::hex(p),
                crate::hexu::hex(&got),
                crate::hexu::hex(&exp)
            ));
        }
    }
    Ok(())
}
