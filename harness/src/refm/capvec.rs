//! Sequential model for C18: an ideal byte vector limited to `cap` elements.

#[derive(Clone, Debug, PartialEq, Eq)]
pub struct CappedVec {
    pub cap: Option<usize>,
    pub v: Vec<u8>,
}

impl CappedVec {
    pub fn new(cap: Option<usize>) -> Self {
        CappedVec { cap, v: Vec::new() }
    }
    pub fn push(&mut self, b: u8) -> Result<(), ()> {
        if let Some(c) = self.cap {
            if self.v.len() + 1 > c {
                return Err(());
            }
        }
        self.v.push(b);
        Ok(())
    }
    pub fn extend_from_slice(&mut self, s: &[u8]) -> Result<(), ()> {
        if let Some(c) = self.cap {
            if self.v.len() + s.len() > c {
                return Err(());
            }
        }
        self.v.extend_from_slice(s);
        Ok(())
    }
    pub fn truncate(&mut self, k: usize) {
        if k < self.v.len() {
            self.v.truncate(k);
        }
    }
    pub fn clear(&mut self) {
        self.v.clear();
    }
}
