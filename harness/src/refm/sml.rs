//! Reference model of the supported SML subset: abstract syntax tree, an encoder with encoding
//! knobs that emits an offset map, and an independent recursive-descent reference parser.

use super::crc::crc16_x25;
use super::tlf::{build_tlf, ref_int, ref_tlf, width_class, RTlf, RTy, TlfErr};
use crate::rng::Rng;

// ------------------------------------------------------------------------------------------
// AST
// ------------------------------------------------------------------------------------------

#[derive(Clone, Debug, PartialEq, Eq)]
pub enum ATime {
    SecIndex(u32),
}

#[derive(Clone, Debug, PartialEq, Eq)]
pub enum AValue {
    Bool(bool),
    Bytes(Vec<u8>),
    I8(i8),
    I16(i16),
    I32(i32),
    I64(i64),
    U8(u8),
    U16(u16),
    U32(u32),
    U64(u64),
    List(ATime),
}

#[derive(Clone, Debug, PartialEq, Eq)]
pub enum AStatus {
    S8(u8),
    S16(u16),
    S32(u32),
    S64(u64),
}

#[derive(Clone, Debug, PartialEq, Eq)]
pub struct AEntry {
    pub obj_name: Vec<u8>,
    pub status: Option<AStatus>,
    pub val_time: Option<ATime>,
    pub unit: Option<u8>,
    pub scaler: Option<i8>,
    pub value: AValue,
    pub value_signature: Option<Vec<u8>>,
}

#[derive(Clone, Debug, PartialEq, Eq)]
pub struct AOpen {
    pub codepage: Option<Vec<u8>>,
    pub client_id: Option<Vec<u8>>,
    pub req_file_id: Vec<u8>,
    pub server_id: Vec<u8>,
    pub ref_time: Option<ATime>,
    pub sml_version: Option<u8>,
}

#[derive(Clone, Debug, PartialEq, Eq)]
pub struct AClose {
    pub global_signature: Option<Vec<u8>>,
}

#[derive(Clone, Debug, PartialEq, Eq)]
pub struct AGetList {
    pub client_id: Option<Vec<u8>>,
    pub server_id: Vec<u8>,
    pub list_name: Option<Vec<u8>>,
    pub act_sensor_time: Option<ATime>,
    pub val_list: Vec<AEntry>,
    pub list_signature: Option<Vec<u8>>,
    pub act_gateway_time: Option<ATime>,
}

#[derive(Clone, Debug, PartialEq, Eq)]
pub enum ABody {
    Open(AOpen),
    Close(AClose),
    GetList(AGetList),
}

#[derive(Clone, Debug, PartialEq, Eq)]
pub struct AMsg {
    pub transaction_id: Vec<u8>,
    pub group_no: u8,
    pub abort_on_error: u8,
    pub body: ABody,
}

#[derive(Clone, Debug, PartialEq, Eq, Default)]
pub struct AFile {
    pub messages: Vec<AMsg>,
}

impl AValue {
    pub fn variant_name(&self) -> &'static str {
        match self {
            AValue::Bool(_) => "Bool",
            AValue::Bytes(_) => "Bytes",
            AValue::I8(_) => "I8",
            AValue::I16(_) => "I16",
            AValue::I32(_) => "I32",
            AValue::I64(_) => "I64",
            AValue::U8(_) => "U8",
            AValue::U16(_) => "U16",
            AValue::U32(_) => "U32",
            AValue::U64(_) => "U64",
            AValue::List(_) => "List",
        }
    }
}

// ------------------------------------------------------------------------------------------
// Encoder with knobs and offset map
// ------------------------------------------------------------------------------------------

#[derive(Clone, Copy, Debug, PartialEq, Eq, Hash)]
pub enum Role {
    MsgList,
    TransId,
    GroupNo,
    AbortOnError,
    BodyChoice,
    BodyTag,
    BodyStruct,
    OptStr,
    Str,
    TimeList,
    TimeTag,
    TimeVal,
    TimeBare,
    SmlVersion,
    ValList,
    Entry,
    ObjName,
    Status,
    Unit,
    Scaler,
    Value,
    ValueListChoice,
    ValueListTag,
    Sig,
    Crc,
}

#[derive(Clone, Copy, Debug)]
pub struct TlfPos {
    pub off: usize,
    pub size: usize,
    pub ty: RTy,
    /// payload bytes following the TLF that belong to this primitive (0 for lists)
    pub data_len: usize,
    pub role: Role,
    pub msg: usize,
}

#[derive(Clone, Copy, Debug)]
pub struct MsgPos {
    pub start: usize,
    /// offset of the TLF of the CRC field (always encoded as `63 lo hi` unless knob says otherwise)
    pub crc_off: usize,
    pub crc_size: usize,
    /// offset of the 0x00 end marker
    pub end_off: usize,
    /// first offset after the message
    pub end: usize,
    /// offsets where list entries start (and the offset just after the last entry)
    pub first_entry_idx: usize,
    pub n_entries: usize,
}

#[derive(Clone, Debug, Default)]
pub struct OffsetMap {
    pub tlfs: Vec<TlfPos>,
    pub msgs: Vec<MsgPos>,
    pub entry_offs: Vec<usize>,
}

#[derive(Clone, Copy, Debug, PartialEq, Eq)]
pub enum WidthPolicy {
    Minimal,
    Maximal,
    Random,
}

#[derive(Clone, Debug)]
pub struct Knobs {
    /// probability (x/100) that a TLF gets 1..=3 extra leading bytes
    pub tlf_extra_pct: usize,
    /// probability (x/100) that a time is encoded in the vendor-workaround form `65 xxxxxxxx`
    pub alt_time_pct: usize,
    pub width: WidthPolicy,
    /// the k-th emitted TLF (0-based) gets exactly this many extra bytes
    pub force_extra_at: Option<(usize, usize)>,
    /// the k-th emitted time uses the alternative encoding (all others standard)
    pub force_alt_time_at: Option<usize>,
    /// encode a message checksum whose first wire byte is zero as a one-byte unsigned (`62 xx`)
    pub narrow_crc: bool,
}

impl Knobs {
    pub fn canonical() -> Knobs {
        Knobs {
            tlf_extra_pct: 0,
            alt_time_pct: 0,
            width: WidthPolicy::Minimal,
            force_extra_at: None,
            force_alt_time_at: None,
            narrow_crc: false,
        }
    }
    pub fn random(rng: &mut Rng) -> Knobs {
        Knobs {
            tlf_extra_pct: *rng.pick(&[0, 0, 5, 20, 60]),
            alt_time_pct: *rng.pick(&[0, 10, 50, 100]),
            width: *rng.pick(&[WidthPolicy::Minimal, WidthPolicy::Maximal, WidthPolicy::Random]),
            force_extra_at: None,
            force_alt_time_at: None,
            narrow_crc: rng.chance(1, 2),
        }
    }
}

pub struct Encoded {
    pub bytes: Vec<u8>,
    pub map: OffsetMap,
    /// summary of encoding choices that were actually taken (for situation classes)
    pub n_extra_tlf: usize,
    pub n_alt_time: usize,
    pub n_std_time: usize,
    pub max_tlf_size: usize,
    pub n_narrow_crc: usize,
}

struct Enc<'a> {
    out: Vec<u8>,
    map: OffsetMap,
    knobs: &'a Knobs,
    rng: &'a mut Rng,
    n_tlf: usize,
    n_time: usize,
    cur_msg: usize,
    n_extra_tlf: usize,
    n_alt_time: usize,
    n_std_time: usize,
    max_tlf_size: usize,
    n_narrow_crc: usize,
}

fn fits_unsigned(v: u64, w: usize) -> bool {
    w >= 8 || v >> (8 * w) == 0
}
fn fits_signed(v: i64, w: usize) -> bool {
    if w >= 8 {
        return true;
    }
    let lim = 1i64 << (8 * w - 1);
    v >= -lim && v < lim
}

impl<'a> Enc<'a> {
    fn tlf(&mut self, ty: RTy, len: usize, role: Role, extra_allowed: bool) {
        let mut extra = 0;
        if extra_allowed {
            if let Some((k, e)) = self.knobs.force_extra_at {
                if k == self.n_tlf {
                    extra = e;
                }
            } else if self.knobs.tlf_extra_pct > 0 && self.rng.below(100) < self.knobs.tlf_extra_pct {
                extra = self.rng.range(1, 3);
            }
        }
        let t = build_tlf(ty, len, extra);
        if t.len() > 1 && extra > 0 {
            self.n_extra_tlf += 1;
        }
        self.max_tlf_size = self.max_tlf_size.max(t.len());
        self.map.tlfs.push(TlfPos {
            off: self.out.len(),
            size: t.len(),
            ty,
            data_len: if ty == RTy::List { 0 } else { len },
            role,
            msg: self.cur_msg,
        });
        self.out.extend_from_slice(&t);
        self.n_tlf += 1;
    }

    fn octet(&mut self, s: &[u8], role: Role) {
        self.tlf(RTy::Octet, s.len(), role, true);
        self.out.extend_from_slice(s);
    }

    fn opt_octet(&mut self, s: &Option<Vec<u8>>, role: Role) {
        match s {
            None => self.out.push(0x01),
            Some(v) if v.is_empty() => {
                // `01` would mean "absent": Some(empty) needs a non-minimal TLF
                let t = build_tlf(RTy::Octet, 0, 1);
                self.map.tlfs.push(TlfPos {
                    off: self.out.len(),
                    size: t.len(),
                    ty: RTy::Octet,
                    data_len: 0,
                    role,
                    msg: self.cur_msg,
                });
                self.max_tlf_size = self.max_tlf_size.max(t.len());
                self.n_extra_tlf += 1;
                self.n_tlf += 1;
                self.out.extend_from_slice(&t);
            }
            Some(v) => self.octet(v, role),
        }
    }

    fn pick_width(&mut self, lo: usize, hi: usize, fits: impl Fn(usize) -> bool) -> usize {
        let cands: Vec<usize> = (lo..=hi).filter(|w| fits(*w)).collect();
        assert!(!cands.is_empty(), "value does not fit its width class");
        match self.knobs.width {
            WidthPolicy::Minimal => cands[0],
            WidthPolicy::Maximal => *cands.last().unwrap(),
            WidthPolicy::Random => *self.rng.pick(&cands),
        }
    }

    /// unsigned of a *typed* field: any width 1..=maxw that holds the value
    fn uint_typed(&mut self, v: u64, maxw: usize, role: Role) {
        let w = self.pick_width(1, maxw, |w| fits_unsigned(v, w));
        self.uint_w(v, w, role);
    }

    fn uint_w(&mut self, v: u64, w: usize, role: Role) {
        self.tlf(RTy::Uint, w, role, true);
        self.out.extend_from_slice(&v.to_be_bytes()[8 - w..]);
    }

    fn sint_w(&mut self, v: i64, w: usize, role: Role) {
        self.tlf(RTy::Int, w, role, true);
        self.out.extend_from_slice(&v.to_be_bytes()[8 - w..]);
    }

    fn time(&mut self, t: &ATime) {
        let ATime::SecIndex(v) = t;
        let alt = if let Some(k) = self.knobs.force_alt_time_at {
            k == self.n_time
        } else {
            self.knobs.alt_time_pct > 0 && self.rng.below(100) < self.knobs.alt_time_pct
        };
        self.n_time += 1;
        if alt {
            self.n_alt_time += 1;
            self.uint_w(*v as u64, 4, Role::TimeBare);
        } else {
            self.n_std_time += 1;
            self.tlf(RTy::List, 2, Role::TimeList, true);
            self.uint_w(1, 1, Role::TimeTag);
            self.uint_typed(*v as u64, 4, Role::TimeVal);
        }
    }

    fn opt_time(&mut self, t: &Option<ATime>) {
        match t {
            None => self.out.push(0x01),
            Some(t) => self.time(t),
        }
    }

    fn value(&mut self, v: &AValue) {
        match v {
            AValue::Bool(b) => {
                // boolean TLFs cannot be multi-byte (reserved)
                self.tlf(RTy::Bool, 1, Role::Value, false);
                // any non-zero byte means true
                let byte = if *b {
                    if self.knobs.width == WidthPolicy::Minimal {
                        1
                    } else {
                        self.rng.range(1, 255) as u8
                    }
                } else {
                    0
                };
                self.out.push(byte);
            }
            AValue::Bytes(s) => self.octet(s, Role::Value),
            AValue::I8(x) => self.sint_w(*x as i64, 1, Role::Value),
            AValue::I16(x) => self.sint_w(*x as i64, 2, Role::Value),
            AValue::I32(x) => {
                let w = self.pick_width(3, 4, |w| fits_signed(*x as i64, w));
                self.sint_w(*x as i64, w, Role::Value)
            }
            AValue::I64(x) => {
                let w = self.pick_width(5, 8, |w| fits_signed(*x, w));
                self.sint_w(*x, w, Role::Value)
            }
            AValue::U8(x) => self.uint_w(*x as u64, 1, Role::Value),
            AValue::U16(x) => self.uint_w(*x as u64, 2, Role::Value),
            AValue::U32(x) => {
                let w = self.pick_width(3, 4, |w| fits_unsigned(*x as u64, w));
                self.uint_w(*x as u64, w, Role::Value)
            }
            AValue::U64(x) => {
                let w = self.pick_width(5, 8, |w| fits_unsigned(*x, w));
                self.uint_w(*x, w, Role::Value)
            }
            AValue::List(t) => {
                self.tlf(RTy::List, 2, Role::ValueListChoice, true);
                self.uint_w(1, 1, Role::ValueListTag);
                self.time(t);
            }
        }
    }

    fn status(&mut self, s: &AStatus) {
        match s {
            AStatus::S8(x) => self.uint_w(*x as u64, 1, Role::Status),
            AStatus::S16(x) => self.uint_w(*x as u64, 2, Role::Status),
            AStatus::S32(x) => {
                let w = self.pick_width(3, 4, |w| fits_unsigned(*x as u64, w));
                self.uint_w(*x as u64, w, Role::Status)
            }
            AStatus::S64(x) => {
                let w = self.pick_width(5, 8, |w| fits_unsigned(*x, w));
                self.uint_w(*x, w, Role::Status)
            }
        }
    }

    fn entry(&mut self, e: &AEntry) {
        self.map.entry_offs.push(self.out.len());
        self.tlf(RTy::List, 7, Role::Entry, true);
        self.octet(&e.obj_name, Role::ObjName);
        match &e.status {
            None => self.out.push(0x01),
            Some(s) => self.status(s),
        }
        self.opt_time(&e.val_time);
        match e.unit {
            None => self.out.push(0x01),
            Some(u) => self.uint_w(u as u64, 1, Role::Unit),
        }
        match e.scaler {
            None => self.out.push(0x01),
            Some(s) => self.sint_w(s as i64, 1, Role::Scaler),
        }
        self.value(&e.value);
        self.opt_octet(&e.value_signature, Role::Sig);
    }

    fn message(&mut self, m: &AMsg) {
        let start = self.out.len();
        self.tlf(RTy::List, 6, Role::MsgList, true);
        self.octet(&m.transaction_id, Role::TransId);
        self.uint_w(m.group_no as u64, 1, Role::GroupNo);
        self.uint_w(m.abort_on_error as u64, 1, Role::AbortOnError);
        self.tlf(RTy::List, 2, Role::BodyChoice, true);
        let first_entry_idx = self.map.entry_offs.len();
        let mut n_entries = 0;
        match &m.body {
            ABody::Open(o) => {
                self.uint_typed(0x0101, 4, Role::BodyTag);
                self.tlf(RTy::List, 6, Role::BodyStruct, true);
                self.opt_octet(&o.codepage, Role::OptStr);
                self.opt_octet(&o.client_id, Role::OptStr);
                self.octet(&o.req_file_id, Role::Str);
                self.octet(&o.server_id, Role::Str);
                self.opt_time(&o.ref_time);
                match o.sml_version {
                    None => self.out.push(0x01),
                    Some(v) => self.uint_w(v as u64, 1, Role::SmlVersion),
                }
            }
            ABody::Close(c) => {
                self.uint_typed(0x0201, 4, Role::BodyTag);
                self.tlf(RTy::List, 1, Role::BodyStruct, true);
                self.opt_octet(&c.global_signature, Role::Sig);
            }
            ABody::GetList(g) => {
                self.uint_typed(0x0701, 4, Role::BodyTag);
                self.tlf(RTy::List, 7, Role::BodyStruct, true);
                self.opt_octet(&g.client_id, Role::OptStr);
                self.octet(&g.server_id, Role::Str);
                self.opt_octet(&g.list_name, Role::OptStr);
                self.opt_time(&g.act_sensor_time);
                self.tlf(RTy::List, g.val_list.len(), Role::ValList, true);
                for e in &g.val_list {
                    self.entry(e);
                }
                n_entries = g.val_list.len();
                // offset just after the last entry
                self.map.entry_offs.push(self.out.len());
                self.opt_octet(&g.list_signature, Role::Sig);
                self.opt_time(&g.act_gateway_time);
            }
        }
        let crc_off = self.out.len();
        let crc = crc16_x25(&self.out[start..crc_off]);
        // wire order: low byte first (the parsed big-endian number is the byte-swapped checksum)
        self.map.tlfs.push(TlfPos {
            off: crc_off,
            size: 1,
            ty: RTy::Uint,
            data_len: 2,
            role: Role::Crc,
            msg: self.cur_msg,
        });
        self.n_tlf += 1;
        let crc_size;
        if self.knobs.narrow_crc && crc & 0xff == 0 {
            // the transmitted number is (lo << 8) | hi; with lo == 0 it fits one byte
            self.map.tlfs.last_mut().unwrap().data_len = 1;
            self.out.push(0x62);
            self.out.push((crc >> 8) as u8);
            crc_size = 2;
            self.n_narrow_crc += 1;
        } else {
            self.out.push(0x63);
            self.out.push((crc & 0xff) as u8);
            self.out.push((crc >> 8) as u8);
            crc_size = 3;
        }
        let end_off = self.out.len();
        self.out.push(0x00);
        self.map.msgs.push(MsgPos {
            start,
            crc_off,
            crc_size,
            end_off,
            end: self.out.len(),
            first_entry_idx,
            n_entries,
        });
        self.cur_msg += 1;
    }
}

pub fn encode_file(f: &AFile, knobs: &Knobs, rng: &mut Rng) -> Encoded {
    let mut e = Enc {
        out: Vec::new(),
        map: OffsetMap::default(),
        knobs,
        rng,
        n_tlf: 0,
        n_time: 0,
        cur_msg: 0,
        n_extra_tlf: 0,
        n_alt_time: 0,
        n_std_time: 0,
        max_tlf_size: 1,
        n_narrow_crc: 0,
    };
    for m in &f.messages {
        e.message(m);
    }
    Encoded {
        bytes: e.out,
        map: e.map,
        n_extra_tlf: e.n_extra_tlf,
        n_alt_time: e.n_alt_time,
        n_std_time: e.n_std_time,
        max_tlf_size: e.max_tlf_size,
        n_narrow_crc: e.n_narrow_crc,
    }
}

pub fn encode_canonical(f: &AFile) -> Encoded {
    let mut r = Rng::new(0);
    encode_file(f, &Knobs::canonical(), &mut r)
}

/// Recomputes every message checksum of `bytes` in place, using the positions in `map`
/// (which must have been adjusted if bytes were inserted / removed).
pub fn fix_crcs(bytes: &mut [u8], map: &OffsetMap) {
    for m in &map.msgs {
        if m.crc_size == 2 && m.crc_off + 2 <= bytes.len() && m.start <= m.crc_off {
            // one-byte form: only the high byte can be adjusted (the low byte is implied zero)
            let crc = crc16_x25(&bytes[m.start..m.crc_off]);
            bytes[m.crc_off + 1] = (crc >> 8) as u8;
            continue;
        }
        if m.crc_off + 3 <= bytes.len() && m.start <= m.crc_off && m.crc_size == 3 {
            let crc = crc16_x25(&bytes[m.start..m.crc_off]);
            bytes[m.crc_off + 1] = (crc & 0xff) as u8;
            bytes[m.crc_off + 2] = (crc >> 8) as u8;
        }
    }
}

impl OffsetMap {
    fn for_each_off(&mut self, mut f: impl FnMut(&mut usize, bool)) {
        for t in &mut self.tlfs {
            f(&mut t.off, false);
        }
        for m in &mut self.msgs {
            f(&mut m.start, true);
            f(&mut m.crc_off, false);
            f(&mut m.end_off, false);
            f(&mut m.end, false);
        }
        for e in &mut self.entry_offs {
            f(e, false);
        }
    }

    /// `n` bytes were inserted before the byte formerly at `at`. A message that started exactly at
    /// `at` now starts with the inserted bytes (that is how a parser sees it).
    pub fn inserted(&mut self, at: usize, n: usize) {
        self.for_each_off(|x, is_msg_start| {
            if *x > at || (*x == at && !is_msg_start) {
                *x += n;
            }
        });
    }

    /// the `n` bytes at `at..at+n` were removed
    pub fn deleted(&mut self, at: usize, n: usize) {
        self.for_each_off(|x, _| {
            if *x >= at + n {
                *x -= n;
            } else if *x > at {
                *x = at;
            }
        });
    }
}

// ------------------------------------------------------------------------------------------
// Reference parser
// ------------------------------------------------------------------------------------------

#[derive(Clone, Copy, Debug, PartialEq, Eq, Hash)]
pub enum RefErr {
    Eof,
    Tlf(TlfErr),
    /// wrong type or arity at a position
    Mismatch,
    /// unknown choice tag
    Variant,
    MsgEnd,
    Crc,
}

impl RefErr {
    pub fn class(&self) -> &'static str {
        match self {
            RefErr::Eof => "eof",
            RefErr::Tlf(_) => "tlf",
            RefErr::Mismatch => "mismatch",
            RefErr::Variant => "variant",
            RefErr::MsgEnd => "msgend",
            RefErr::Crc => "crc",
        }
    }
}

struct Cur<'a> {
    b: &'a [u8],
    pos: usize,
}

type R<T> = Result<T, RefErr>;

impl<'a> Cur<'a> {
    fn tlf(&mut self) -> R<RTlf> {
        match ref_tlf(&self.b[self.pos..]) {
            Ok(t) => {
                self.pos += t.size;
                Ok(t)
            }
            Err(TlfErr::Truncated) => Err(RefErr::Eof),
            Err(e) => Err(RefErr::Tlf(e)),
        }
    }
    fn take(&mut self, n: usize) -> R<&'a [u8]> {
        if self.b.len() - self.pos < n {
            return Err(RefErr::Eof);
        }
        let s = &self.b[self.pos..self.pos + n];
        self.pos += n;
        Ok(s)
    }
    fn absent(&mut self) -> bool {
        if self.b.get(self.pos) == Some(&0x01) {
            self.pos += 1;
            true
        } else {
            false
        }
    }
    fn expect_list(&mut self, n: u32) -> R<()> {
        let t = self.tlf()?;
        if t.ty != RTy::List || t.len != n {
            return Err(RefErr::Mismatch);
        }
        Ok(())
    }
    fn octet(&mut self) -> R<Vec<u8>> {
        let t = self.tlf()?;
        if t.ty != RTy::Octet {
            return Err(RefErr::Mismatch);
        }
        Ok(self.take(t.len as usize)?.to_vec())
    }
    fn opt_octet(&mut self) -> R<Option<Vec<u8>>> {
        if self.absent() {
            return Ok(None);
        }
        Ok(Some(self.octet()?))
    }
    fn uint(&mut self, maxw: u32) -> R<u64> {
        let t = self.tlf()?;
        if t.ty != RTy::Uint || t.len == 0 || t.len > maxw {
            return Err(RefErr::Mismatch);
        }
        Ok(ref_int(self.take(t.len as usize)?, false) as u64)
    }
    fn sint(&mut self, maxw: u32) -> R<i64> {
        let t = self.tlf()?;
        if t.ty != RTy::Int || t.len == 0 || t.len > maxw {
            return Err(RefErr::Mismatch);
        }
        Ok(ref_int(self.take(t.len as usize)?, true) as i64)
    }
    fn time(&mut self) -> R<ATime> {
        let t = self.tlf()?;
        self.time_with(t)
    }
    fn time_with(&mut self, t: RTlf) -> R<ATime> {
        if t.ty == RTy::Uint && t.len == 4 {
            // documented vendor workaround: a bare u32
            let v = ref_int(self.take(4)?, false) as u32;
            return Ok(ATime::SecIndex(v));
        }
        if t.ty == RTy::List && t.len == 2 {
            let tag = self.uint(1)?;
            if tag != 1 {
                return Err(RefErr::Variant);
            }
            return Ok(ATime::SecIndex(self.uint(4)? as u32));
        }
        Err(RefErr::Mismatch)
    }
    fn opt_time(&mut self) -> R<Option<ATime>> {
        if self.absent() {
            return Ok(None);
        }
        Ok(Some(self.time()?))
    }
    fn value(&mut self) -> R<AValue> {
        let t = self.tlf()?;
        match t.ty {
            RTy::Bool => {
                if t.len != 1 {
                    return Err(RefErr::Mismatch);
                }
                Ok(AValue::Bool(self.take(1)?[0] != 0))
            }
            RTy::Octet => Ok(AValue::Bytes(self.take(t.len as usize)?.to_vec())),
            RTy::Int => {
                let w = width_class(t.len as usize).ok_or(RefErr::Mismatch)?;
                let v = ref_int(self.take(t.len as usize)?, true);
                Ok(match w {
                    1 => AValue::I8(v as i8),
                    2 => AValue::I16(v as i16),
                    4 => AValue::I32(v as i32),
                    _ => AValue::I64(v as i64),
                })
            }
            RTy::Uint => {
                let w = width_class(t.len as usize).ok_or(RefErr::Mismatch)?;
                let v = ref_int(self.take(t.len as usize)?, false);
                Ok(match w {
                    1 => AValue::U8(v as u8),
                    2 => AValue::U16(v as u16),
                    4 => AValue::U32(v as u32),
                    _ => AValue::U64(v as u64),
                })
            }
            RTy::List => {
                if t.len != 2 {
                    return Err(RefErr::Mismatch);
                }
                let tag = self.uint(1)?;
                if tag != 1 {
                    return Err(RefErr::Variant);
                }
                Ok(AValue::List(self.time()?))
            }
        }
    }
    fn status(&mut self) -> R<AStatus> {
        let t = self.tlf()?;
        if t.ty != RTy::Uint {
            return Err(RefErr::Mismatch);
        }
        let w = width_class(t.len as usize).ok_or(RefErr::Mismatch)?;
        let v = ref_int(self.take(t.len as usize)?, false);
        Ok(match w {
            1 => AStatus::S8(v as u8),
            2 => AStatus::S16(v as u16),
            4 => AStatus::S32(v as u32),
            _ => AStatus::S64(v as u64),
        })
    }
    fn entry(&mut self) -> R<AEntry> {
        self.expect_list(7)?;
        let obj_name = self.octet()?;
        let status = if self.absent() { None } else { Some(self.status()?) };
        let val_time = self.opt_time()?;
        let unit = if self.absent() { None } else { Some(self.uint(1)? as u8) };
        let scaler = if self.absent() { None } else { Some(self.sint(1)? as i8) };
        let value = self.value()?;
        let value_signature = self.opt_octet()?;
        Ok(AEntry {
            obj_name,
            status,
            val_time,
            unit,
            scaler,
            value,
            value_signature,
        })
    }
    fn message(&mut self) -> R<AMsg> {
        let start = self.pos;
        self.expect_list(6)?;
        let transaction_id = self.octet()?;
        let group_no = self.uint(1)? as u8;
        let abort_on_error = self.uint(1)? as u8;
        self.expect_list(2)?;
        let tag = self.uint(4)?;
        let body = match tag {
            0x0101 => {
                self.expect_list(6)?;
                let codepage = self.opt_octet()?;
                let client_id = self.opt_octet()?;
                let req_file_id = self.octet()?;
                let server_id = self.octet()?;
                let ref_time = self.opt_time()?;
                let sml_version = if self.absent() { None } else { Some(self.uint(1)? as u8) };
                ABody::Open(AOpen {
                    codepage,
                    client_id,
                    req_file_id,
                    server_id,
                    ref_time,
                    sml_version,
                })
            }
            0x0201 => {
                self.expect_list(1)?;
                ABody::Close(AClose {
                    global_signature: self.opt_octet()?,
                })
            }
            0x0701 => {
                self.expect_list(7)?;
                let client_id = self.opt_octet()?;
                let server_id = self.octet()?;
                let list_name = self.opt_octet()?;
                let act_sensor_time = self.opt_time()?;
                let lt = self.tlf()?;
                if lt.ty != RTy::List {
                    return Err(RefErr::Mismatch);
                }
                let mut val_list = Vec::new();
                for _ in 0..lt.len {
                    val_list.push(self.entry()?);
                }
                let list_signature = self.opt_octet()?;
                let act_gateway_time = self.opt_time()?;
                ABody::GetList(AGetList {
                    client_id,
                    server_id,
                    list_name,
                    act_sensor_time,
                    val_list,
                    list_signature,
                    act_gateway_time,
                })
            }
            _ => return Err(RefErr::Variant),
        };
        let crc_end = self.pos;
        let crc = self.uint(2)? as u16;
        if self.take(1)?[0] != 0x00 {
            return Err(RefErr::MsgEnd);
        }
        // the checksum bytes are transmitted low byte first
        if crc16_x25(&self.b[start..crc_end]).swap_bytes() != crc {
            return Err(RefErr::Crc);
        }
        Ok(AMsg {
            transaction_id,
            group_no,
            abort_on_error,
            body,
        })
    }
}

pub fn ref_parse(x: &[u8]) -> Result<AFile, RefErr> {
    let mut c = Cur { b: x, pos: 0 };
    let mut messages = Vec::new();
    while c.pos < x.len() {
        messages.push(c.message()?);
    }
    Ok(AFile { messages })
}

/// Reference reading of a single value at the start of `x` (used by the C12 probes).
pub fn ref_value(x: &[u8]) -> Result<(AValue, usize), RefErr> {
    let mut c = Cur { b: x, pos: 0 };
    let v = c.value()?;
    Ok((v, c.pos))
}

pub fn ref_octet(x: &[u8]) -> Result<(Vec<u8>, usize), RefErr> {
    let mut c = Cur { b: x, pos: 0 };
    let v = c.octet()?;
    Ok((v, c.pos))
}

pub fn ref_status(x: &[u8]) -> Result<(AStatus, usize), RefErr> {
    let mut c = Cur { b: x, pos: 0 };
    let v = c.status()?;
    Ok((v, c.pos))
}

pub fn ref_uint(x: &[u8], maxw: u32) -> Result<(u64, usize), RefErr> {
    let mut c = Cur { b: x, pos: 0 };
    let v = c.uint(maxw)?;
    Ok((v, c.pos))
}

pub fn ref_sint(x: &[u8], maxw: u32) -> Result<(i64, usize), RefErr> {
    let mut c = Cur { b: x, pos: 0 };
    let v = c.sint(maxw)?;
    Ok((v, c.pos))
}

pub fn selftest() -> Result<(), String> {
    // the documentation example of complete.rs
    let bytes = [
        0x76, 0x5, 0xdd, 0x43, 0x44, 0x0, 0x62, 0x0, 0x62, 0x0, 0x72, 0x63, 0x2, 0x1, 0x71, 0x1, 0x63, 0xfd, 0x56, 0x0,
    ];
    let exp = AFile {
        messages: vec![AMsg {
            transaction_id: vec![221, 67, 68, 0],
            group_no: 0,
            abort_on_error: 0,
            body: ABody::Close(AClose {
                global_signature: None,
            }),
        }],
    };
    match ref_parse(&bytes) {
        Ok(f) if f == exp => {}
        other => return Err(format!("ref_parse(doc example) = {:?}", other)),
    }
    let enc = encode_canonical(&exp);
    if enc.bytes != bytes {
        return Err(format!(
            "encode_canonical(doc example) = {}",
            crate::hexu::hex(&enc.bytes)
        ));
    }
    let mut bad = bytes;
    bad[18] ^= 1;
    if ref_parse(&bad) != Err(RefErr::Crc) {
        return Err("ref_parse does not detect a flipped crc bit".into());
    }
    Ok(())
}
