//! Worker context: evaluation loop, panic capture, journal, report (evidence counters).

use crate::hexu::{json_str, Case};
use crate::rng::{mix, Rng};
use std::cell::RefCell;
use std::collections::{BTreeMap, BTreeSet, HashSet};
use std::fs::File;
use std::io::Write;
use std::os::unix::fs::FileExt;
use std::panic::{catch_unwind, AssertUnwindSafe};

#[derive(Clone, Copy, PartialEq, Eq, Debug)]
pub enum Tier {
    Quick,
    Thorough,
}

/// A violation of the property, as decided by a monitor.
#[derive(Clone, Debug)]
pub struct Fail {
    pub sub: String,
    pub expected: String,
    pub observed: String,
}

impl Fail {
    pub fn new(sub: &str, expected: impl Into<String>, observed: impl Into<String>) -> Fail {
        Fail {
            sub: sub.to_string(),
            expected: expected.into(),
            observed: observed.into(),
        }
    }
}

pub type Verdict = Result<(), Fail>;

#[macro_export]
macro_rules! ensure {
    ($cond:expr, $sub:expr, $exp:expr, $obs:expr) => {
        if !($cond) {
            return Err($crate::core::Fail::new($sub, $exp, $obs));
        }
    };
}

#[derive(Clone, Debug)]
pub struct Violation {
    pub case: Case,
    pub fail: Fail,
}

pub trait PropCase: Sized {
    fn to_case(&self) -> Case;
    fn from_case(c: &Case) -> Result<Self, String>;
    fn check(&self, ctx: &mut Ctx) -> Verdict;
}

thread_local! {
    static LAST_PANIC: RefCell<Option<String>> = const { RefCell::new(None) };
}

pub fn install_panic_hook() {
    std::panic::set_hook(Box::new(|info| {
        crate::alloc_track::off();
        let msg = if let Some(s) = info.payload().downcast_ref::<&str>() {
            s.to_string()
        } else if let Some(s) = info.payload().downcast_ref::<String>() {
            s.clone()
        } else {
            "<non-string panic payload>".to_string()
        };
        let loc = info
            .location()
            .map(|l| format!("{}:{}:{}", l.file(), l.line(), l.column()))
            .unwrap_or_else(|| "<unknown>".into());
        LAST_PANIC.with(|p| *p.borrow_mut() = Some(format!("panic '{}' at {}", msg, loc)));
    }));
}

/// Runs `f`; a panic is turned into `Err(description)`.
pub fn guarded<T>(f: impl FnOnce() -> T) -> Result<T, String> {
    match catch_unwind(AssertUnwindSafe(f)) {
        Ok(v) => Ok(v),
        Err(_) => {
            crate::alloc_track::off();
            Err(LAST_PANIC
                .with(|p| p.borrow_mut().take())
                .unwrap_or_else(|| "panic (no message captured)".into()))
        }
    }
}

pub struct Ctx {
    pub prop: String,
    pub tier: Tier,
    pub seed: u64,
    pub shard: usize,
    pub nshards: usize,
    /// "chk" (overflow checks + debug assertions) or "rel"
    pub profile: String,
    /// percentage of the random volume to run (rel slice in the quick tier)
    pub volume_pct: usize,
    pub rng: Rng,
    pub replaying: bool,
    journal: Option<File>,
    journal_on: bool,
    pub rep: Report,
}

#[derive(Default)]
pub struct Report {
    pub evaluations: u64,
    class_keys: HashSet<u64>,
    pub classes: BTreeSet<String>,
    pub counters: BTreeMap<String, u64>,
    pub maxima: BTreeMap<String, u64>,
    pub samples: Vec<String>,
    sample_kinds: BTreeMap<String, usize>,
    pub violations: Vec<Violation>,
    pub violation_count: u64,
    viol_sigs: HashSet<String>,
    pub inconclusive: Vec<String>,
    pub notes: Vec<String>,
    pub exhaustive: BTreeMap<String, u64>,
    pub floors: Vec<String>,
    pub rule: String,
}

pub const MAX_VIOLATIONS_KEPT: usize = 6;
pub const QUICK_MULT: usize = 4;
pub const THOROUGH_MULT: usize = 5;
pub const SAMPLES_PER_KIND: usize = 2;

impl Ctx {
    pub fn new(
        prop: &str,
        tier: Tier,
        seed: u64,
        shard: usize,
        nshards: usize,
        profile: &str,
        volume_pct: usize,
        journal_path: Option<&str>,
    ) -> Ctx {
        let tier_n = if tier == Tier::Quick { 1 } else { 2 };
        let rng = Rng::new(mix(&[
            seed,
            crate::rng::hash_str(prop),
            tier_n,
            shard as u64,
            crate::rng::hash_str(profile),
        ]));
        let journal = journal_path.map(|p| File::create(p).expect("cannot create journal file"));
        Ctx {
            prop: prop.to_string(),
            tier,
            seed,
            shard,
            nshards,
            profile: profile.to_string(),
            volume_pct,
            rng,
            replaying: false,
            journal,
            journal_on: false,
            rep: Report::default(),
        }
    }

    /// journalling of every case before it runs (for properties where an abort / hang is in scope)
    pub fn journal_every_case(&mut self, on: bool) {
        self.journal_on = on && self.journal.is_some();
    }

    pub fn quick(&self) -> bool {
        self.tier == Tier::Quick
    }

    /// Number of random cases for this shard: `q` (quick) or `t` (thorough) in total over all shards,
    /// scaled by the volume percentage.
    pub fn count(&self, q: usize, t: usize) -> usize {
        // global volume multipliers (the per-property numbers were calibrated at 1x: ~1-2 s per property)
        let total = if self.quick() { q * QUICK_MULT } else { t * THOROUGH_MULT };
        let total = total * self.volume_pct / 100;
        (total + self.nshards - 1) / self.nshards
    }

    /// true if index `i` of an exhaustive enumeration belongs to this shard
    pub fn mine(&self, i: u64) -> bool {
        (i % self.nshards as u64) as usize == self.shard
    }

    fn write_journal(&mut self, text: &str) {
        if let Some(f) = &self.journal {
            let mut buf = Vec::with_capacity(text.len() + 16);
            buf.extend_from_slice(&self.rep.evaluations.to_le_bytes());
            buf.extend_from_slice(&(text.len() as u32).to_le_bytes());
            buf.extend_from_slice(text.as_bytes());
            let _ = f.write_all_at(&buf, 0);
        }
    }

    /// progress heartbeat without the case text (cheap; lets the watchdog see progress)
    pub fn heartbeat(&mut self) {
        if let Some(f) = &self.journal {
            let mut buf = [0u8; 12];
            buf[..8].copy_from_slice(&self.rep.evaluations.to_le_bytes());
            let _ = f.write_all_at(&buf, 0);
        }
    }

    /// Evaluate one case: journal (if on), run the monitor under catch_unwind, record.
    pub fn eval<C: PropCase>(&mut self, case: &C) -> bool {
        self.rep.evaluations += 1;
        if self.journal_on {
            let t = case.to_case().to_text();
            self.write_journal(&t);
        } else if self.rep.evaluations % 4096 == 0 {
            self.heartbeat();
        }
        let r = guarded(|| case.check(self));
        let verdict = match r {
            Ok(v) => v,
            Err(p) => Err(Fail::new(
                "panic",
                "the call returns normally (value or error value)",
                p,
            )),
        };
        match verdict {
            Ok(()) => true,
            Err(fail) => {
                self.record_violation(case.to_case(), fail);
                false
            }
        }
    }

    pub fn record_violation(&mut self, case: Case, fail: Fail) {
        self.rep.violation_count += 1;
        // keep a few, distinct by (sub-check, case kind)
        let sig = format!("{}|{}", fail.sub, case.kind);
        let n_same = self.rep.violations.iter().filter(|v| format!("{}|{}", v.fail.sub, v.case.kind) == sig).count();
        if self.rep.violations.len() < MAX_VIOLATIONS_KEPT * 4 && n_same < MAX_VIOLATIONS_KEPT {
            self.rep.viol_sigs.insert(sig);
            self.rep.violations.push(Violation { case, fail });
        }
    }

    /// Count a situation class that was *observed*. `describe` is only called for new keys.
    pub fn class(&mut self, key: u64, describe: impl FnOnce() -> String) {
        if self.rep.class_keys.insert(key) {
            self.rep.classes.insert(describe());
        }
    }

    pub fn class_s(&mut self, s: &str) {
        let k = crate::rng::hash_str(s);
        if self.rep.class_keys.insert(k) {
            self.rep.classes.insert(s.to_string());
        }
    }

    pub fn bump(&mut self, k: &str) {
        *self.rep.counters.entry(k.to_string()).or_insert(0) += 1;
    }

    pub fn add(&mut self, k: &str, n: u64) {
        *self.rep.counters.entry(k.to_string()).or_insert(0) += n;
    }

    pub fn maxi(&mut self, k: &str, v: u64) {
        let e = self.rep.maxima.entry(k.to_string()).or_insert(0);
        if v > *e {
            *e = v;
        }
    }

    /// whether a sample of this kind is still wanted (so monitors only format traces when needed)
    pub fn want_sample(&self, kind: &str) -> bool {
        self.rep.sample_kinds.get(kind).copied().unwrap_or(0) < SAMPLES_PER_KIND
    }

    pub fn sample(&mut self, kind: &str, text: impl FnOnce() -> String) {
        let n = self.rep.sample_kinds.entry(kind.to_string()).or_insert(0);
        if *n < SAMPLES_PER_KIND {
            *n += 1;
            let t = text();
            self.rep.samples.push(format!("[{}] {}", kind, t));
        }
    }

    pub fn note(&mut self, s: impl Into<String>) {
        self.rep.notes.push(s.into());
    }

    pub fn inconclusive(&mut self, s: impl Into<String>) {
        self.rep.inconclusive.push(s.into());
    }

    pub fn exhaustive_space(&mut self, name: &str, n: u64) {
        *self.rep.exhaustive.entry(name.to_string()).or_insert(0) += n;
    }
}

fn json_map_u64(m: &BTreeMap<String, u64>) -> String {
    let items: Vec<String> = m
        .iter()
        .map(|(k, v)| format!("{}:{}", json_str(k), v))
        .collect();
    format!("{{{}}}", items.join(","))
}

fn json_list_str<'a>(it: impl Iterator<Item = &'a String>) -> String {
    let items: Vec<String> = it.map(|s| json_str(s)).collect();
    format!("[{}]", items.join(","))
}

impl Report {
    pub fn to_json(&self, ctx_prop: &str, shard: usize, profile: &str) -> String {
        let viols: Vec<String> = self
            .violations
            .iter()
            .map(|v| {
                format!(
                    "{{\"sub\":{},\"case\":{},\"expected\":{},\"observed\":{}}}",
                    json_str(&v.fail.sub),
                    json_str(&v.case.to_text()),
                    json_str(&v.fail.expected),
                    json_str(&v.fail.observed)
                )
            })
            .collect();
        format!(
            "{{\"property\":{},\"shard\":{},\"profile\":{},\"evaluations\":{},\"classes\":{},\"counters\":{},\"maxima\":{},\"samples\":{},\"violations\":[{}],\"violation_count\":{},\"inconclusive\":{},\"notes\":{},\"exhaustive\":{},\"floors\":{},\"rule\":{}}}",
            json_str(ctx_prop),
            shard,
            json_str(profile),
            self.evaluations,
            json_list_str(self.classes.iter()),
            json_map_u64(&self.counters),
            json_map_u64(&self.maxima),
            json_list_str(self.samples.iter()),
            viols.join(","),
            self.violation_count,
            json_list_str(self.inconclusive.iter()),
            json_list_str(self.notes.iter()),
            json_map_u64(&self.exhaustive),
            json_list_str(self.floors.iter()),
            json_str(&self.rule),
        )
    }
}

pub fn write_out(path: &str, text: &str) {
    let mut f = File::create(path).expect("cannot create output file");
    f.write_all(text.as_bytes()).expect("cannot write output");
}
