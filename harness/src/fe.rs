//! Front-end adapters: every public way of decoding / encoding, observed at the API boundary and
//! normalised into position-stamped event logs.

use crate::conv::{conv_file, drive_parser, PKind, StreamRun};
use crate::refm::sml::AFile;
use sml_rs::transport::{
    decode, decode_streaming, encode, encode_streaming, DecodeErr, Decoder, ReadDecodedError, VerifDecoderState,
};
use sml_rs::util::{ArrayBuf, Buffer};
use sml_rs::{DecodedBytes, ReadParsedError, SmlReader};
use std::cell::Cell;
use std::rc::Rc;

// ------------------------------------------------------------------------------------------
// normalised transport events
// ------------------------------------------------------------------------------------------

#[derive(Clone, Debug, PartialEq, Eq, Hash)]
pub enum DErr {
    Discarded(usize),
    InvalidEsc([u8; 4]),
    Oom,
    InvalidMsg {
        crc_read: u16,
        crc_calc: u16,
        misaligned: bool,
        pad: u8,
        invalid_pad: bool,
    },
}

thread_local! {
    /// when set, every error value that crosses the adapter is also formatted with Display and Debug
    /// (formatting is part of "returns normally": a recursive Display impl aborts the process)
    pub static FORMAT_ERRORS: Cell<bool> = const { Cell::new(false) };
}

pub fn format_errors(on: bool) {
    FORMAT_ERRORS.with(|f| f.set(on));
}

fn fmt_probe<T: core::fmt::Display + core::fmt::Debug>(e: &T) {
    if FORMAT_ERRORS.with(|f| f.get()) {
        let a = format!("{}", e);
        let b = format!("{:?}", e);
        let c = format!("{:#?}", e);
        std::hint::black_box((a.len(), b.len(), c.len()));
    }
}

impl DErr {
    pub fn of(e: &DecodeErr) -> DErr {
        fmt_probe(e);
        match e {
            DecodeErr::DiscardedBytes(n) => DErr::Discarded(*n),
            DecodeErr::InvalidEsc(p) => DErr::InvalidEsc(*p),
            DecodeErr::OutOfMemory => DErr::Oom,
            DecodeErr::InvalidMessage {
                checksum_mismatch,
                end_esc_misaligned,
                num_padding_bytes,
                invalid_padding_bytes,
            } => DErr::InvalidMsg {
                crc_read: checksum_mismatch.0,
                crc_calc: checksum_mismatch.1,
                misaligned: *end_esc_misaligned,
                pad: *num_padding_bytes,
                invalid_pad: *invalid_padding_bytes,
            },
        }
    }
    pub fn kind(&self) -> &'static str {
        match self {
            DErr::Discarded(_) => "Discarded",
            DErr::InvalidEsc(_) => "InvalidEsc",
            DErr::Oom => "OutOfMemory",
            DErr::InvalidMsg { .. } => "InvalidMessage",
        }
    }
}

#[derive(Clone, Debug, PartialEq, Eq, Hash)]
pub enum TEv {
    Ok(Vec<u8>),
    Err(DErr),
}

impl TEv {
    pub fn short(&self) -> String {
        match self {
            TEv::Ok(p) => format!("Ok({})", crate::hexu::hex_short(p)),
            TEv::Err(e) => format!("Err({:?})", e),
        }
    }
}

/// (index of the input byte whose consumption surfaced the event, event).
/// Events produced at end of input (finalize / EOF) carry position = input length.
pub type Log = Vec<(usize, TEv)>;

pub fn log_str(l: &Log) -> String {
    let v: Vec<String> = l.iter().map(|(p, e)| format!("@{} {}", p, e.short())).collect();
    format!("[{}]", v.join(", "))
}

pub fn evs_str(l: &[TEv]) -> String {
    let v: Vec<String> = l.iter().map(|e| e.short()).collect();
    format!("[{}]", v.join(", "))
}

// ------------------------------------------------------------------------------------------
// buffer kinds and capacity menu
// ------------------------------------------------------------------------------------------

#[derive(Clone, Copy, Debug, PartialEq, Eq, Hash)]
pub enum BufKind {
    Vec,
    Arr(usize),
}

impl BufKind {
    pub fn name(&self) -> String {
        match self {
            BufKind::Vec => "vec".into(),
            BufKind::Arr(n) => format!("a{}", n),
        }
    }
    pub fn parse(s: &str) -> Result<BufKind, String> {
        if s == "vec" {
            return Ok(BufKind::Vec);
        }
        let n: usize = s
            .strip_prefix('a')
            .ok_or_else(|| format!("bad buffer kind '{}'", s))?
            .parse()
            .map_err(|e| format!("bad buffer kind '{}': {}", s, e))?;
        if !MENU.contains(&n) {
            return Err(format!("capacity {} is not in the menu", n));
        }
        Ok(BufKind::Arr(n))
    }
    pub fn kind_class(&self) -> &'static str {
        match self {
            BufKind::Vec => "vec",
            BufKind::Arr(_) => "arr",
        }
    }
}

macro_rules! menu {
    ($($n:literal),* $(,)?) => {
        pub const MENU: &[usize] = &[$($n),*];

        /// calls `$v.visit::<ArrayBuf<N>>()` for the menu capacity `cap`
        pub fn dispatch<V: CapVisitor>(cap: usize, v: V) -> V::Out {
            match cap {
                $($n => v.visit::<ArrayBuf<$n>>(),)*
                _ => panic!("harness: capacity {} is not in the menu", cap),
            }
        }
    };
}

menu!(
    0, 1, 2, 3, 4, 5, 6, 7, 8, 9, 10, 11, 12, 13, 14, 15, 16, 17, 18, 19, 20, 21, 22, 23, 24, 25, 26, 27, 28, 29, 30, 31,
    32, 33, 34, 35, 36, 37, 38, 39, 40, 41, 42, 43, 44, 45, 46, 47, 48, 49, 50, 51, 52, 53, 54, 55, 56, 57, 58, 59, 60,
    61, 62, 63, 64, 100, 127, 128, 255, 256, 257, 1000, 1024, 4096, 8191, 8192, 8193, 65535, 65536, 70000, 1200000
);

pub trait CapVisitor {
    type Out;
    fn visit<B: Buffer + BuilderFor + 'static>(self) -> Self::Out;
}

/// smallest menu capacity >= n
pub fn menu_at_least(n: usize) -> Option<usize> {
    MENU.iter().copied().find(|c| *c >= n)
}

pub fn dispatch_buf<V: CapVisitor>(k: BufKind, v: V) -> V::Out {
    match k {
        BufKind::Vec => v.visit::<Vec<u8>>(),
        BufKind::Arr(n) => dispatch(n, v),
    }
}

// ------------------------------------------------------------------------------------------
// F1: push decoder behind a trait object
// ------------------------------------------------------------------------------------------

#[derive(Clone, Copy, Debug, PartialEq, Eq, Hash, Default)]
pub struct DState {
    pub phase: u8,
    pub aux: u8,
    pub zero_cache: u8,
    pub raw_msg_len: usize,
    pub buf_len: usize,
}

impl DState {
    fn of(s: VerifDecoderState) -> DState {
        DState {
            phase: s.phase,
            aux: s.aux,
            zero_cache: s.zero_cache,
            raw_msg_len: s.raw_msg_len,
            buf_len: s.buf_len,
        }
    }
    pub fn phase_name(&self) -> String {
        match self.phase {
            0 => format!("LookingForStart({})", self.aux),
            1 => format!("Normal(z{})", self.zero_cache),
            2 => format!("EscChars({})", self.aux),
            3 => format!("EscPayload({})", self.aux),
            _ => "Done".to_string(),
        }
    }
    /// coarse "how dirty is the decoder" class for C14 evidence
    pub fn dirty_class(&self) -> String {
        format!(
            "{}|buf={}|align={}",
            self.phase_name(),
            if self.buf_len == 0 { "empty" } else { "nonempty" },
            self.raw_msg_len % 4
        )
    }
}

pub trait DynDecoder {
    fn push(&mut self, b: u8) -> Result<Option<Vec<u8>>, DErr>;
    fn finalize(&mut self) -> Option<DErr>;
    fn reset(&mut self) -> usize;
    fn state(&self) -> DState;
}

impl<B: Buffer> DynDecoder for Decoder<B> {
    fn push(&mut self, b: u8) -> Result<Option<Vec<u8>>, DErr> {
        match self.push_byte(b) {
            Ok(None) => Ok(None),
            Ok(Some(p)) => Ok(Some(p.to_vec())),
            Err(e) => Err(DErr::of(&e)),
        }
    }
    fn finalize(&mut self) -> Option<DErr> {
        Decoder::finalize(self).map(|e| DErr::of(&e))
    }
    fn reset(&mut self) -> usize {
        Decoder::reset(self)
    }
    fn state(&self) -> DState {
        DState::of(self.verif_state())
    }
}

struct NewDecoder;
impl CapVisitor for NewDecoder {
    type Out = Box<dyn DynDecoder>;
    fn visit<B: Buffer + BuilderFor + 'static>(self) -> Self::Out {
        Box::new(Decoder::<B>::new())
    }
}

pub fn new_decoder(k: BufKind) -> Box<dyn DynDecoder> {
    dispatch_buf(k, NewDecoder)
}

struct NewDecoderFromBuf;
impl CapVisitor for NewDecoderFromBuf {
    type Out = Box<dyn DynDecoder>;
    fn visit<B: Buffer + BuilderFor + 'static>(self) -> Self::Out {
        // an existing buffer that still holds stale content (as much as fits, at most 5 bytes)
        let mut b: B = Default::default();
        for i in 0..5u8 {
            if b.push(0xE0 | i).is_err() {
                break;
            }
        }
        Box::new(Decoder::<B>::from_buf(b))
    }
}

/// `Decoder::from_buf` over a buffer that still contains stale bytes
pub fn new_decoder_from_buf(k: BufKind) -> Box<dyn DynDecoder> {
    dispatch_buf(k, NewDecoderFromBuf)
}

/// F1 on a decoder constructed with `Decoder::from_buf(stale buffer)`
pub fn run_f1_from_buf(k: BufKind, s: &[u8]) -> Log {
    let mut d = new_decoder_from_buf(k);
    let mut log = Log::new();
    feed(d.as_mut(), s, 0, &mut log);
    if let Some(e) = d.finalize() {
        log.push((s.len(), TEv::Err(e)));
    }
    log
}

/// Feeds `s` to `d`, appending position-stamped events (positions offset by `base`).
pub fn feed(d: &mut dyn DynDecoder, s: &[u8], base: usize, log: &mut Log) {
    for (i, b) in s.iter().enumerate() {
        match d.push(*b) {
            Ok(None) => {}
            Ok(Some(p)) => log.push((base + i, TEv::Ok(p))),
            Err(e) => log.push((base + i, TEv::Err(e))),
        }
    }
}

/// F1 on a fresh decoder: push every byte, then finalize (stamped with |s|).
pub fn run_f1(k: BufKind, s: &[u8]) -> Log {
    let mut d = new_decoder(k);
    let mut log = Log::new();
    feed(d.as_mut(), s, 0, &mut log);
    if let Some(e) = d.finalize() {
        log.push((s.len(), TEv::Err(e)));
    }
    log
}

// ------------------------------------------------------------------------------------------
// F2: decode()
// ------------------------------------------------------------------------------------------

pub fn run_f2(s: &[u8], by_ref: bool) -> Vec<TEv> {
    let r = if by_ref {
        decode(s.iter())
    } else {
        decode(s.iter().copied())
    };
    r.into_iter()
        .map(|x| match x {
            Ok(p) => TEv::Ok(p),
            Err(e) => TEv::Err(DErr::of(&e)),
        })
        .collect()
}

// ------------------------------------------------------------------------------------------
// counting sources
// ------------------------------------------------------------------------------------------

/// byte iterator that counts how many items were pulled (and how often it was polled after the end)
pub struct CountIter {
    data: Rc<Vec<u8>>,
    pos: Rc<Cell<usize>>,
    polls_after_end: Rc<Cell<usize>>,
}

impl Iterator for CountIter {
    type Item = u8;
    fn next(&mut self) -> Option<u8> {
        let p = self.pos.get();
        if p < self.data.len() {
            self.pos.set(p + 1);
            Some(self.data[p])
        } else {
            self.polls_after_end.set(self.polls_after_end.get() + 1);
            None
        }
    }
}

pub struct Counter {
    pub pos: Rc<Cell<usize>>,
    pub polls_after_end: Rc<Cell<usize>>,
}

pub fn count_iter(s: &[u8]) -> (CountIter, Counter) {
    let pos = Rc::new(Cell::new(0));
    let pae = Rc::new(Cell::new(0));
    (
        CountIter {
            data: Rc::new(s.to_vec()),
            pos: pos.clone(),
            polls_after_end: pae.clone(),
        },
        Counter {
            pos,
            polls_after_end: pae,
        },
    )
}

// ------------------------------------------------------------------------------------------
// F3: decode_streaming::<B>()
// ------------------------------------------------------------------------------------------

struct RunF3<'a> {
    s: &'a [u8],
    extra_calls: usize,
}

/// result of F3: log (positions from the counting iterator) + anything returned by calls after None
pub struct F3Out {
    pub log: Log,
    pub late: Vec<String>,
}

impl<'a> CapVisitor for RunF3<'a> {
    type Out = F3Out;
    fn visit<B: Buffer + BuilderFor + 'static>(self) -> F3Out {
        let (it, cnt) = count_iter(self.s);
        let mut di = decode_streaming::<B>(it);
        let mut log = Log::new();
        loop {
            let r = di.next().map(|r| match r {
                Ok(p) => TEv::Ok(p.to_vec()),
                Err(e) => TEv::Err(DErr::of(&e)),
            });
            match r {
                None => break,
                Some(ev) => {
                    // position = index of the last byte pulled; events at end of input get |s|
                    let pulled = cnt.pos.get();
                    let at_end = cnt.polls_after_end.get() > 0;
                    let pos = if at_end { self.s.len() } else { pulled.saturating_sub(1) };
                    log.push((pos, ev));
                }
            }
            if log.len() > self.s.len() + 4 {
                break; // bounded: more results than bytes is impossible for a correct decoder
            }
        }
        let mut late = Vec::new();
        for k in 0..self.extra_calls {
            if let Some(r) = di.next() {
                late.push(format!("call +{} after None: {:?}", k + 1, r.map(|p| p.to_vec())));
            }
        }
        F3Out { log, late }
    }
}

/// F3 over a source iterator that is NOT fused: after its first None it yields `after` (a complete further
/// frame). The input ended at the first None, so nothing but None may come out of the decode iterator then.
pub fn run_f3_unfused(s: &[u8], after: &[u8], extra_calls: usize) -> F3Out {
    struct Src2 {
        a: Vec<u8>,
        b: Vec<u8>,
        pos: usize,
    }
    impl Iterator for Src2 {
        type Item = u8;
        fn next(&mut self) -> Option<u8> {
            let p = self.pos;
            self.pos += 1;
            if p < self.a.len() {
                Some(self.a[p])
            } else if p == self.a.len() {
                None
            } else {
                self.b.get(p - self.a.len() - 1).copied()
            }
        }
    }
    let mut di = decode_streaming::<Vec<u8>>(Src2 { a: s.to_vec(), b: after.to_vec(), pos: 0 });
    let mut log = Log::new();
    let mut n = 0;
    loop {
        match di.next() {
            None => break,
            Some(Ok(p)) => log.push((n, TEv::Ok(p.to_vec()))),
            Some(Err(e)) => log.push((n, TEv::Err(DErr::of(&e)))),
        }
        n += 1;
        if n > s.len() + 4 {
            break;
        }
    }
    let mut late = Vec::new();
    for k in 0..extra_calls {
        if let Some(r) = di.next() {
            late.push(format!("call +{} after None: {:?}", k + 1, r.map(|p| p.to_vec())));
        }
    }
    F3Out { log, late }
}

pub fn run_f3(k: BufKind, s: &[u8], extra_calls: usize) -> F3Out {
    dispatch_buf(k, RunF3 { s, extra_calls })
}

// ------------------------------------------------------------------------------------------
// scripted io::Read / embedded-hal sources with fault injection
// ------------------------------------------------------------------------------------------

#[derive(Clone, Copy, Debug, PartialEq, Eq, Hash)]
pub enum Item {
    Byte(u8),
    WouldBlock,
    Interrupted,
    /// any other I/O error
    Other,
    /// a transient end-of-file indication (io::Read returning Ok(0) once)
    EofOnce,
}

#[derive(Clone)]
pub struct Script {
    pub items: Rc<Vec<Item>>,
    /// index of the next script item
    pub idx: Rc<Cell<usize>>,
    /// number of data bytes delivered so far
    pub bytes_out: Rc<Cell<usize>>,
    /// reads attempted after the script was exhausted
    pub reads_after_end: Rc<Cell<usize>>,
}

impl Script {
    pub fn new(items: Vec<Item>) -> Script {
        Script {
            items: Rc::new(items),
            idx: Rc::new(Cell::new(0)),
            bytes_out: Rc::new(Cell::new(0)),
            reads_after_end: Rc::new(Cell::new(0)),
        }
    }
    pub fn from_bytes(s: &[u8]) -> Script {
        Script::new(s.iter().map(|b| Item::Byte(*b)).collect())
    }
    /// same items, fresh counters (every reader gets its own)
    pub fn fresh(&self) -> Script {
        Script {
            items: self.items.clone(),
            idx: Rc::new(Cell::new(0)),
            bytes_out: Rc::new(Cell::new(0)),
            reads_after_end: Rc::new(Cell::new(0)),
        }
    }
    fn next_item(&self) -> Option<Item> {
        let i = self.idx.get();
        if i < self.items.len() {
            self.idx.set(i + 1);
            let it = self.items[i];
            if let Item::Byte(_) = it {
                self.bytes_out.set(self.bytes_out.get() + 1);
            }
            Some(it)
        } else {
            self.reads_after_end.set(self.reads_after_end.get() + 1);
            None
        }
    }
}

pub struct ScriptRead(pub Script);

impl std::io::Read for ScriptRead {
    fn read(&mut self, buf: &mut [u8]) -> std::io::Result<usize> {
        use std::io::{Error, ErrorKind};
        if buf.is_empty() {
            return Ok(0);
        }
        match self.0.next_item() {
            None => Ok(0),
            Some(Item::Byte(b)) => {
                buf[0] = b;
                Ok(1)
            }
            Some(Item::WouldBlock) => Err(Error::new(ErrorKind::WouldBlock, "scripted would-block")),
            Some(Item::Interrupted) => Err(Error::new(ErrorKind::Interrupted, "scripted interrupt")),
            Some(Item::Other) => {
                // every kind that is neither would-block, interrupted nor unexpected-eof is an "other" error
                const KINDS: [ErrorKind; 8] = [
                    ErrorKind::BrokenPipe,
                    ErrorKind::TimedOut,
                    ErrorKind::ConnectionReset,
                    ErrorKind::Other,
                    ErrorKind::InvalidData,
                    ErrorKind::PermissionDenied,
                    ErrorKind::NotConnected,
                    ErrorKind::ConnectionAborted,
                ];
                let k = KINDS[self.0.idx.get() % KINDS.len()];
                Err(Error::new(k, "scripted error"))
            }
            Some(Item::EofOnce) => Ok(0),
        }
    }
}

#[derive(Debug, Clone, Copy, PartialEq, Eq)]
pub struct PinErr(pub u8);

/// embedded-hal serial source. It has no notion of end of input: after the script it keeps
/// returning WouldBlock (what an idle UART does).
pub struct ScriptPin(pub Script);

impl embedded_hal_02::serial::Read<u8> for ScriptPin {
    type Error = PinErr;
    fn read(&mut self) -> nb::Result<u8, PinErr> {
        match self.0.next_item() {
            None => Err(nb::Error::WouldBlock),
            Some(Item::Byte(b)) => Ok(b),
            Some(Item::WouldBlock) => Err(nb::Error::WouldBlock),
            // embedded-hal has no "interrupted"; scripts for this source do not contain it
            Some(Item::Interrupted) => Err(nb::Error::WouldBlock),
            Some(Item::Other) => Err(nb::Error::Other(PinErr(7))),
            Some(Item::EofOnce) => Err(nb::Error::Other(PinErr(9))),
        }
    }
}

// ------------------------------------------------------------------------------------------
// F4/F5/F6: SmlReader behind a trait object
// ------------------------------------------------------------------------------------------

#[derive(Clone, Copy, Debug, PartialEq, Eq, Hash)]
pub enum Api {
    Read,
    Next,
    ReadNb,
    NextNb,
}

#[derive(Clone, Copy, Debug, PartialEq, Eq, Hash)]
pub enum Target {
    Bytes,
    File,
    Parser,
}

#[derive(Clone, Copy, Debug, PartialEq, Eq, Hash)]
pub enum IoKind {
    Eof,
    WouldBlock,
    Other,
}

/// Normalised result of one reader call.
#[derive(Clone, Debug, PartialEq, Eq)]
pub enum ROut {
    /// a transmission was delivered; `bytes` only for target Bytes, the parse results for File / Parser
    Bytes(Vec<u8>),
    File(Result<AFile, PKind>),
    Events(StreamRun),
    DecodeErr(DErr),
    IoErr(IoKind, usize),
    /// next()/next_nb(): no more data
    None,
    /// *_nb(): nb::Error::WouldBlock
    NbWouldBlock,
}

impl ROut {
    pub fn short(&self) -> String {
        match self {
            ROut::Bytes(b) => format!("Bytes({})", crate::hexu::hex_short(b)),
            ROut::File(Ok(f)) => format!("File(ok,{} msgs)", f.messages.len()),
            ROut::File(Err(e)) => format!("File(ParseErr {})", e.name()),
            ROut::Events(r) => format!(
                "Parser({} events, err={:?})",
                r.events.len(),
                r.first_err.map(|e| e.name())
            ),
            ROut::DecodeErr(e) => format!("DecodeErr({:?})", e),
            ROut::IoErr(k, n) => format!("IoErr({:?},{})", k, n),
            ROut::None => "None".into(),
            ROut::NbWouldBlock => "nb::WouldBlock".into(),
        }
    }
    pub fn is_delivery(&self) -> bool {
        matches!(self, ROut::Bytes(_) | ROut::File(_) | ROut::Events(_))
    }
}

pub trait ErrNorm: core::fmt::Debug {
    fn norm(&self) -> IoKind;
}
impl ErrNorm for sml_rs::util::Eof {
    fn norm(&self) -> IoKind {
        IoKind::Eof
    }
}
impl ErrNorm for std::io::Error {
    fn norm(&self) -> IoKind {
        match self.kind() {
            std::io::ErrorKind::UnexpectedEof => IoKind::Eof,
            std::io::ErrorKind::WouldBlock => IoKind::WouldBlock,
            _ => IoKind::Other,
        }
    }
}
impl ErrNorm for nb::Error<PinErr> {
    fn norm(&self) -> IoKind {
        match self {
            nb::Error::WouldBlock => IoKind::WouldBlock,
            nb::Error::Other(_) => IoKind::Other,
        }
    }
}

pub trait DynReader {
    fn call(&mut self, api: Api, target: Target) -> ROut;
    fn state(&self) -> DState;
}

fn rde<E: ErrNorm>(e: ReadDecodedError<E>) -> ROut {
    if FORMAT_ERRORS.with(|f| f.get()) {
        std::hint::black_box(format!("{:?}", e).len());
    }
    match e {
        ReadDecodedError::DecodeErr(d) => ROut::DecodeErr(DErr::of(&d)),
        ReadDecodedError::IoErr(io, n) => ROut::IoErr(io.norm(), n),
    }
}

/// Err(Some(out)) = a decode / io error surfaced as T's error type; Err(None) = a parse error
fn rpe<E: ErrNorm>(e: ReadParsedError<E>) -> Result<PKind, ROut> {
    if FORMAT_ERRORS.with(|f| f.get()) {
        std::hint::black_box((format!("{}", e).len(), format!("{:?}", e).len()));
    }
    match e {
        ReadParsedError::ParseErr(p) => Ok(PKind::of(&p)),
        ReadParsedError::DecodeErr(d) => Err(ROut::DecodeErr(DErr::of(&d))),
        ReadParsedError::IoErr(io, n) => Err(ROut::IoErr(io.norm(), n)),
    }
}

impl<R, B, E> DynReader for SmlReader<R, B>
where
    R: sml_rs::util::ByteSource<ReadError = E>,
    B: Buffer,
    E: ErrNorm + sml_rs::util::ByteSourceErr,
{
    fn call(&mut self, api: Api, target: Target) -> ROut {
        use sml_rs::parser::complete::File;
        use sml_rs::parser::streaming::Parser;
        // the streaming parser is driven inside the call because it borrows from the reader
        let drive = |p: Parser| ROut::Events(drive_parser(p, 1 << 22, 2));
        let file_ok = |f: File| ROut::File(Ok(conv_file(&f)));
        match (api, target) {
            (Api::Read, Target::Bytes) => match self.read::<DecodedBytes>() {
                Ok(b) => ROut::Bytes(b.to_vec()),
                Err(e) => rde(e),
            },
            (Api::Read, Target::File) => match self.read::<File>() {
                Ok(f) => file_ok(f),
                Err(e) => match rpe(e) {
                    Ok(p) => ROut::File(Err(p)),
                    Err(o) => o,
                },
            },
            (Api::Read, Target::Parser) => match self.read::<Parser>() {
                Ok(p) => drive(p),
                Err(e) => rde(e),
            },
            (Api::Next, Target::Bytes) => match self.next::<DecodedBytes>() {
                None => ROut::None,
                Some(Ok(b)) => ROut::Bytes(b.to_vec()),
                Some(Err(e)) => rde(e),
            },
            (Api::Next, Target::File) => match self.next::<File>() {
                None => ROut::None,
                Some(Ok(f)) => file_ok(f),
                Some(Err(e)) => match rpe(e) {
                    Ok(p) => ROut::File(Err(p)),
                    Err(o) => o,
                },
            },
            (Api::Next, Target::Parser) => match self.next::<Parser>() {
                None => ROut::None,
                Some(Ok(p)) => drive(p),
                Some(Err(e)) => rde(e),
            },
            (Api::ReadNb, Target::Bytes) => match self.read_nb::<DecodedBytes>() {
                Ok(b) => ROut::Bytes(b.to_vec()),
                Err(nb::Error::WouldBlock) => ROut::NbWouldBlock,
                Err(nb::Error::Other(e)) => rde(e),
            },
            (Api::ReadNb, Target::File) => match self.read_nb::<File>() {
                Ok(f) => file_ok(f),
                Err(nb::Error::WouldBlock) => ROut::NbWouldBlock,
                Err(nb::Error::Other(e)) => match rpe(e) {
                    Ok(p) => ROut::File(Err(p)),
                    Err(o) => o,
                },
            },
            (Api::ReadNb, Target::Parser) => match self.read_nb::<Parser>() {
                Ok(p) => drive(p),
                Err(nb::Error::WouldBlock) => ROut::NbWouldBlock,
                Err(nb::Error::Other(e)) => rde(e),
            },
            (Api::NextNb, Target::Bytes) => match self.next_nb::<DecodedBytes>() {
                Ok(None) => ROut::None,
                Ok(Some(b)) => ROut::Bytes(b.to_vec()),
                Err(nb::Error::WouldBlock) => ROut::NbWouldBlock,
                Err(nb::Error::Other(e)) => rde(e),
            },
            (Api::NextNb, Target::File) => match self.next_nb::<File>() {
                Ok(None) => ROut::None,
                Ok(Some(f)) => file_ok(f),
                Err(nb::Error::WouldBlock) => ROut::NbWouldBlock,
                Err(nb::Error::Other(e)) => match rpe(e) {
                    Ok(p) => ROut::File(Err(p)),
                    Err(o) => o,
                },
            },
            (Api::NextNb, Target::Parser) => match self.next_nb::<Parser>() {
                Ok(None) => ROut::None,
                Ok(Some(p)) => drive(p),
                Err(nb::Error::WouldBlock) => ROut::NbWouldBlock,
                Err(nb::Error::Other(e)) => rde(e),
            },
        }
    }
    fn state(&self) -> DState {
        DState::of(self.verif_state())
    }
}

/// which byte source the reader is built over
#[derive(Clone, Copy, Debug, PartialEq, Eq, Hash)]
pub enum Src {
    Slice,
    /// iterator yielding u8 by value
    IterVal,
    /// iterator yielding &u8
    IterRef,
    /// std::io::Read (scripted, counts bytes, can inject faults)
    Io,
    /// embedded-hal serial (scripted)
    Eh,
}

impl Src {
    pub fn name(&self) -> &'static str {
        match self {
            Src::Slice => "slice",
            Src::IterVal => "iterval",
            Src::IterRef => "iterref",
            Src::Io => "io",
            Src::Eh => "eh",
        }
    }
    pub fn parse(s: &str) -> Result<Src, String> {
        Ok(match s {
            "slice" => Src::Slice,
            "iterval" => Src::IterVal,
            "iterref" => Src::IterRef,
            "io" => Src::Io,
            "eh" => Src::Eh,
            _ => return Err(format!("bad source '{}'", s)),
        })
    }
}

/// Reader buffer: the default 8 KiB buffer (the `SmlReader::from_*` constructors) or an explicit one.
#[derive(Clone, Copy, Debug, PartialEq, Eq, Hash)]
pub enum RBuf {
    Default,
    Kind(BufKind),
}

impl RBuf {
    pub fn name(&self) -> String {
        match self {
            RBuf::Default => "default".into(),
            RBuf::Kind(k) => k.name(),
        }
    }
    pub fn parse(s: &str) -> Result<RBuf, String> {
        if s == "default" {
            Ok(RBuf::Default)
        } else {
            Ok(RBuf::Kind(BufKind::parse(s)?))
        }
    }
    pub fn capacity(&self) -> Option<usize> {
        match self {
            RBuf::Default => Some(8192),
            RBuf::Kind(BufKind::Vec) => None,
            RBuf::Kind(BufKind::Arr(n)) => Some(*n),
        }
    }
}

/// Everything a reader needs to live: the reader borrows `data` for slice / by-ref iterator sources.
pub struct ReaderEnv {
    pub data: Vec<u8>,
    pub script: Script,
}

impl ReaderEnv {
    pub fn from_bytes(s: &[u8]) -> ReaderEnv {
        ReaderEnv {
            data: s.to_vec(),
            script: Script::from_bytes(s),
        }
    }
    pub fn from_script(items: Vec<Item>) -> ReaderEnv {
        let data = items
            .iter()
            .filter_map(|i| if let Item::Byte(b) = i { Some(*b) } else { None })
            .collect();
        ReaderEnv {
            data,
            script: Script::new(items),
        }
    }
}

struct MkReader<'a> {
    env: &'a ReaderEnv,
    src: Src,
}

pub struct ReaderBox<'a> {
    pub r: Box<dyn DynReader + 'a>,
    /// bytes pulled from the source so far (None for the slice source, which cannot be observed)
    pub pulled: Box<dyn Fn() -> Option<usize> + 'a>,
}

impl<'a> CapVisitor for MkReader<'a> {
    type Out = ReaderBox<'a>;
    fn visit<B: Buffer + BuilderFor + 'static>(self) -> ReaderBox<'a> {
        let env = self.env;
        match self.src {
            Src::Slice => ReaderBox {
                r: Box::new(mk_builder::<B>().from_slice(&env.data)),
                pulled: Box::new(|| None),
            },
            Src::IterVal => {
                let (it, cnt) = count_iter(&env.data);
                ReaderBox {
                    r: Box::new(mk_builder::<B>().from_iterator(it)),
                    pulled: Box::new(move || Some(cnt.pos.get())),
                }
            }
            Src::IterRef => {
                let pos = Rc::new(Cell::new(0usize));
                let p2 = pos.clone();
                let it = env.data.iter().inspect(move |_| p2.set(p2.get() + 1));
                ReaderBox {
                    r: Box::new(mk_builder::<B>().from_iterator(it)),
                    pulled: Box::new(move || Some(pos.get())),
                }
            }
            Src::Io => {
                let sc = env.script.fresh();
                let sc2 = sc.clone();
                ReaderBox {
                    r: Box::new(mk_builder::<B>().from_reader(ScriptRead(sc))),
                    pulled: Box::new(move || Some(sc2.bytes_out.get())),
                }
            }
            Src::Eh => {
                let sc = env.script.fresh();
                let sc2 = sc.clone();
                ReaderBox {
                    r: Box::new(mk_builder::<B>().from_eh_reader(ScriptPin(sc))),
                    pulled: Box::new(move || Some(sc2.bytes_out.get())),
                }
            }
        }
    }
}

fn mk_builder<B: Buffer + BuilderFor + 'static>() -> sml_rs::SmlReaderBuilder<B> {
    // SmlReaderBuilder can only be obtained through with_static_buffer / with_vec_buffer; both just
    // carry the buffer type. `BuilderFor` maps the buffer type back to the public constructor.
    <B as BuilderFor>::builder()
}

pub trait BuilderFor: Buffer + Sized + PartialEq + core::fmt::Debug + FromIterator<u8> {
    fn builder() -> sml_rs::SmlReaderBuilder<Self>;
}
impl BuilderFor for Vec<u8> {
    fn builder() -> sml_rs::SmlReaderBuilder<Self> {
        SmlReader::with_vec_buffer()
    }
}
impl<const N: usize> BuilderFor for ArrayBuf<N> {
    fn builder() -> sml_rs::SmlReaderBuilder<Self> {
        SmlReader::with_static_buffer::<N>()
    }
}

/// Builds a reader over `env` with the given source and buffer.
pub fn new_reader<'a>(env: &'a ReaderEnv, src: Src, buf: RBuf) -> ReaderBox<'a> {
    match buf {
        RBuf::Kind(k) => dispatch_buf(
            k,
            MkReader { env, src },
        ),
        RBuf::Default => match src {
            // the constructors on SmlReader itself (default 8 KiB buffer)
            Src::Slice => ReaderBox {
                r: Box::new(SmlReader::from_slice(&env.data)),
                pulled: Box::new(|| None),
            },
            Src::IterVal => {
                let (it, cnt) = count_iter(&env.data);
                ReaderBox {
                    r: Box::new(SmlReader::from_iterator(it)),
                    pulled: Box::new(move || Some(cnt.pos.get())),
                }
            }
            Src::IterRef => {
                let pos = Rc::new(Cell::new(0usize));
                let p2 = pos.clone();
                let it = env.data.iter().inspect(move |_| p2.set(p2.get() + 1));
                ReaderBox {
                    r: Box::new(SmlReader::from_iterator(it)),
                    pulled: Box::new(move || Some(pos.get())),
                }
            }
            Src::Io => {
                let sc = env.script.fresh();
                let sc2 = sc.clone();
                ReaderBox {
                    r: Box::new(SmlReader::from_reader(ScriptRead(sc))),
                    pulled: Box::new(move || Some(sc2.bytes_out.get())),
                }
            }
            Src::Eh => {
                let sc = env.script.fresh();
                let sc2 = sc.clone();
                ReaderBox {
                    r: Box::new(SmlReader::from_eh_reader(ScriptPin(sc))),
                    pulled: Box::new(move || Some(sc2.bytes_out.get())),
                }
            }
        },
    }
}

// ------------------------------------------------------------------------------------------
// encoders
// ------------------------------------------------------------------------------------------

struct RunEncode<'a> {
    p: &'a [u8],
    /// 0 = by value, 1 = by reference, 2 = iterator whose size hint over-estimates, 3 = unknown upper bound
    mode: u8,
}
impl<'a> CapVisitor for RunEncode<'a> {
    type Out = Result<Vec<u8>, ()>;
    fn visit<B: Buffer + BuilderFor + 'static>(self) -> Self::Out {
        let r = match self.mode {
            1 => encode::<B>(self.p.iter()),
            2 => {
                // upper bound of the hint is 3x the real length (+8)
                let n = self.p.len();
                encode::<B>(self.p.iter().copied().chain(std::iter::repeat(0u8).take(2 * n + 8)).enumerate().filter(move |(i, _)| *i < n).map(|(_, b)| b))
            }
            3 => {
                let mut k = 0usize;
                let p = self.p;
                encode::<B>(std::iter::from_fn(move || {
                    k += 1;
                    p.get(k - 1).copied()
                }))
            }
            _ => encode::<B>(self.p.iter().copied()),
        };
        match r {
            Ok(b) => Ok(b.to_vec()),
            Err(_) => Err(()),
        }
    }
}

/// buffer encoder: Ok(frame) or Err(()) = OutOfMemory
pub fn run_encode(k: BufKind, p: &[u8], by_ref: bool) -> Result<Vec<u8>, ()> {
    dispatch_buf(k, RunEncode { p, mode: by_ref as u8 })
}

/// buffer encoder fed by an iterator of the given kind (see RunEncode::mode)
pub fn run_encode_mode(k: BufKind, p: &[u8], mode: u8) -> Result<Vec<u8>, ()> {
    dispatch_buf(k, RunEncode { p, mode })
}

/// size_hint() of the iterator encoder over a slice source, and the first `n` bytes produced over an
/// unbounded source (`iter::repeat`)
pub fn encoder_size_hint(p: &[u8]) -> (usize, Option<usize>) {
    encode_streaming(p.iter().copied()).size_hint()
}

pub fn encode_unbounded_prefix(b: u8, n: usize) -> ((usize, Option<usize>), Vec<u8>) {
    let mut e = encode_streaming(std::iter::repeat(b));
    let h = e.size_hint();
    let v: Vec<u8> = e.by_ref().take(n).collect();
    (h, v)
}

/// the frame as produced through the Iterator adapters that use internal iteration
pub struct EncAdapters {
    pub folded: Vec<u8>,
    pub for_each: Vec<u8>,
    pub count: usize,
    pub last: Option<u8>,
    pub sum: u64,
    pub collected_ext: Vec<u8>,
}

pub fn encode_streaming_adapters(p: &[u8]) -> EncAdapters {
    let folded = encode_streaming(p.iter().copied()).fold(Vec::new(), |mut v, b| {
        v.push(b);
        v
    });
    let mut fe = Vec::new();
    encode_streaming(p.iter()).for_each(|b| fe.push(b));
    let count = encode_streaming(p.iter().copied()).count();
    let last = encode_streaming(p.iter().copied()).last();
    let sum = encode_streaming(p.iter().copied()).map(|b| b as u64).sum();
    let mut ext = vec![0xAAu8];
    ext.extend(encode_streaming(p.iter().copied()));
    ext.remove(0);
    EncAdapters { folded, for_each: fe, count, last, sum, collected_ext: ext }
}

/// A source iterator that is deliberately *not* fused: after its first None it yields junk again.
pub struct Unfused {
    data: Vec<u8>,
    pos: usize,
    pub polls_after_none: Rc<Cell<usize>>,
}
impl Iterator for Unfused {
    type Item = u8;
    fn next(&mut self) -> Option<u8> {
        if self.pos < self.data.len() {
            self.pos += 1;
            Some(self.data[self.pos - 1])
        } else if self.pos == self.data.len() {
            self.pos += 1;
            None
        } else {
            self.polls_after_none.set(self.polls_after_none.get() + 1);
            Some(0xEE)
        }
    }
}

/// A source whose `size_hint` is honest but loose: the upper bound exceeds the real number of items by `over`
/// (as `filter` / `take_while` / `skip_while` adapters report it), the lower bound is 0.
pub struct LooseHint {
    data: Vec<u8>,
    pos: usize,
    over: usize,
}
impl Iterator for LooseHint {
    type Item = u8;
    fn next(&mut self) -> Option<u8> {
        let b = self.data.get(self.pos).copied();
        if b.is_some() {
            self.pos += 1;
        }
        b
    }
    fn size_hint(&self) -> (usize, Option<usize>) {
        (0, Some(self.data.len() - self.pos + self.over))
    }
}

pub struct EncStreamOut {
    pub bytes: Vec<u8>,
    /// items yielded by further polls after the encoder's first None
    pub late: Vec<u8>,
    pub hit_bound: bool,
}

/// iterator encoder, collected by hand; polled `extra` more times after its first None.
/// mode 0: by-value slice iterator, 1: by-ref, 2: non-fused source, 3: source with a loose upper size hint
/// (real length + 1..3, so that the hint and the real length differ mod 4)
pub fn run_encode_streaming(p: &[u8], mode: u8, extra: usize) -> EncStreamOut {
    fn collect(mut it: impl Iterator<Item = u8>, bound: usize, extra: usize) -> EncStreamOut {
        let mut bytes = Vec::new();
        let mut hit_bound = false;
        loop {
            match it.next() {
                Some(b) => bytes.push(b),
                None => break,
            }
            if bytes.len() > bound {
                hit_bound = true;
                break;
            }
        }
        let mut late = Vec::new();
        if !hit_bound {
            for _ in 0..extra {
                if let Some(b) = it.next() {
                    late.push(b);
                }
            }
        }
        EncStreamOut { bytes, late, hit_bound }
    }
    let bound = 2 * p.len() + 64;
    match mode {
        0 => collect(encode_streaming(p.iter().copied()), bound, extra),
        1 => collect(encode_streaming(p.iter()), bound, extra),
        3 => collect(encode_streaming(LooseHint { data: p.to_vec(), pos: 0, over: 1 + p.len() % 3 }), bound, extra),
        _ => collect(
            encode_streaming(Unfused {
                data: p.to_vec(),
                pos: 0,
                polls_after_none: Rc::new(Cell::new(0)),
            }),
            bound,
            extra,
        ),
    }
}
