#!/bin/bash
# Evaluates every patch listed in an index file (lines: "<name> <PROP> <PROP> ...") found in <dir>/<name>.diff
# against the listed quick checks. Meant for `vp run --with-repo -- bash tools/batch_mutants.sh mutants mutants/INDEX.txt`:
# inside a run snapshot the harness is pointed at the snapshot of /repo ($VP_RUN_REPO) so that /repo itself is untouched.
set -u
dir=$1; index=$2
here=$(cd "$(dirname "$0")/.." && pwd)
cd "$here"
if [ -n "${VP_RUN_REPO:-}" ]; then
  export VERIF_REPO="$VP_RUN_REPO"
  sed -i "s#path = \"/repo\"#path = \"$VP_RUN_REPO\"#" harness/Cargo.toml
  [ -f "$VP_RUN_REPO/Cargo.lock" ] || cp harness/Cargo.lock "$VP_RUN_REPO/Cargo.lock"
fi
mkdir -p "$dir/results"
while read -r name props; do
  [ -z "$name" ] && continue
  echo "=== $name ($props)"
  patch="$dir/$name.diff"
  [ -f "$dir/$name/patch.diff" ] && patch="$dir/$name/patch.diff"
  python3 tools/mutant_eval.py --with-tests ${MUTANT_EVAL_FLAGS:-} "$patch" $props 2>&1 | tee "$dir/results/$name.log" | grep -E "^(EXISTING|CAUGHT|PATCH|refusing|C[0-9]+ (VIOLATION|INCON))" | cut -c1-300
done < "$index"
