#!/usr/bin/env python3
"""Regenerates the mutant table in DESIGN.md (between the MUTANT-TABLE markers) from seeded/*/meta.json and
mutants/results/*.log."""
import glob, json, os, re
ROOT = os.path.dirname(os.path.dirname(os.path.abspath(__file__)))

def main():
    rows = []
    per_check = {}
    n = caught = by_target = 0
    missed = []
    for mp in sorted(glob.glob(os.path.join(ROOT, "seeded", "C*-?", "meta.json"))):
        m = json.load(open(mp))
        cr = m.get("checks_run") or {}
        live = set((cr.get("applied_to_repo") or {}).get("caught_by", []))
        snap = set((cr.get("all_18_checks_in_snapshot_run") or {}).get("caught_by", []))
        allc = sorted(live | snap)
        n += 1
        if allc:
            caught += 1
        else:
            missed.append(m["id"])
        if m["property"] in allc:
            by_target += 1
        for c in allc:
            per_check[c] = per_check.get(c, 0) + 1
        what = ""
        np = os.path.join(os.path.dirname(mp), "notes.md")
        if os.path.exists(np):
            for l in open(np):
                l = l.strip().lstrip("#").strip()
                if len(l) > 20:
                    what = l[:110]
                    break
        rows.append("| %s | %s | %s | %s | %s |" % (m["id"], m["property"], " ".join(allc) or "**none**", " ".join(sorted(live)) or "-", what.replace("|", "/")))
    out = []
    out.append("**Totals:** %d verified sub-agent mutants; %d caught by at least one check; %d caught by the check of the property they were written against; not caught: %s.\n" % (n, caught, by_target, ", ".join(missed) or "none"))
    out.append("Catches per check (a mutant usually trips several): " + ", ".join("%s: %d" % (k, per_check[k]) for k in sorted(per_check)) + ".\n")
    out.append("| mutant | written against | caught by (all runs) | confirmed with the patch applied to /repo | first line of the agent's notes |\n|---|---|---|---|---|")
    out.extend(rows)
    s = open(os.path.join(ROOT, "DESIGN.md")).read()
    a = s.index("<!-- BEGIN:MUTANT-TABLE -->") + len("<!-- BEGIN:MUTANT-TABLE -->")
    b = s.index("<!-- END:MUTANT-TABLE -->")
    s = s[:a] + "\n" + "\n".join(out) + "\n" + s[b:]
    open(os.path.join(ROOT, "DESIGN.md"), "w").write(s)
    print("mutants", n, "caught", caught, "by target", by_target, "missed", missed)

main()
