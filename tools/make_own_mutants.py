#!/usr/bin/env python3
"""Generates the hand-planned mutants of DESIGN.md section 8.3 as patch files in /verif/mutants/.
Each mutant is a textual substitution against /repo HEAD (made in a scratch worktree, never in /repo)."""
import subprocess, os, sys, shutil
W = "/tmp/own-mut-wt"
OUT = "/verif/mutants"
M = [
 # name, target props, file, old, new
 ("c01_flush_before_pad", "C01 C16 C02", "src/transport/decode.rs",
  "                        // remove padding bytes\n                        self.zero_cache -= num_padding_bytes;\n\n                        self.flush(buf)?;",
  "                        self.flush(buf)?;\n                        // remove padding bytes\n                        buf.truncate(buf.len() - num_padding_bytes as usize);"),
 ("c01_realign_without_mod", "C01 C02", "src/transport/decode.rs",
  "let bytes_until_alignment = (4 - (self.raw_msg_len % 4)) % 4;", "let bytes_until_alignment = 4 - (self.raw_msg_len % 4);"),
 ("c01_zero_cache_cap5", "C01 C16 C02", "src/transport/decode.rs",
  "if self.zero_cache <= 3 {", "if self.zero_cache <= 4 {"),
 ("c02_drop_alignment_check", "C02", "src/transport/decode.rs",
  "                            || misaligned\n", ""),
 ("c02_drop_invalid_padding", "C02", "src/transport/decode.rs",
  "                            || invalid_padding_bytes\n                        {", "                        {"),
 ("c02_drop_padding_too_large", "C02", "src/transport/decode.rs",
  "                            || padding_too_large\n", ""),
 ("c02_crc_low_byte_only", "C02", "src/transport/decode.rs",
  "if read_crc != calculated_crc\n", "if (read_crc & 0xff) != (calculated_crc & 0xff)\n"),
 ("c02_restart_keeps_buffer", "C02 C14", "src/transport/decode.rs",
  "                        self.zero_cache = 0;\n                        buf.clear();\n                        self.crc = CRC_X25.digest();", "                        self.zero_cache = 0;\n                        self.crc = CRC_X25.digest();"),
 ("c02_realign_no_1a_lookahead", "C02", "src/transport/decode.rs",
  "                            && payload[bytes_until_alignment] == 0x1a\n", ""),
 ("c03_sign_extend_unsigned", "C03 C12", "src/parser/num.rs",
  "    let fill_byte = if IS_SIGNED {", "    let fill_byte = if IS_SIGNED || SIZE == 8 {"),
 ("c03_negative_ge_7f", "C03 C12", "src/parser/num.rs",
  "let is_negative = bytes[0] > 0x7F;", "let is_negative = bytes[0] >= 0x7F;"),
 ("c12_bool_eq_1", "C12 C03", "src/parser/num.rs",
  "Ok((input, b > 0))", "Ok((input, b == 1))"),
 ("c12_list_rule_for_strings", "C12 C03 C04", "src/parser/tlf.rs",
  "if !matches!(ty, Ty::ListOf) {", "if !matches!(ty, Ty::ListOf) && (tlf_len == 1 || !matches!(ty, Ty::OctetString)) {"),
 ("c12_len_nibble_or", "C12 C03", "src/parser/tlf.rs",
  "len += len_new & 0b1111;", "len |= len_new & 0b0111;"),
 ("c04_skip_end_marker", "C04", "src/parser/common.rs",
  "        if b != 0x00 {\n            return Err(ParseError::MsgEndMismatch);\n        }", "        let _ = b;"),
 ("c04_crc_one_byte_less", "C04 C03", "src/parser/complete.rs",
  ".checksum(&input_orig[0..num_bytes_read])", ".checksum(&input_orig[0..num_bytes_read - 1])"),
 ("c04_unknown_tag_is_close", "C04 C09", "src/parser/complete.rs",
  "            _ => Err(ParseError::UnexpectedVariant),\n        }\n    }\n}\n\n#[derive(PartialEq, Eq, Clone)]\n/// `SML_GetList.Res` message",
  "            _ => {\n                let (input, x) = <CloseResponse<'i>>::parse(input)?;\n                Ok((input, MessageBody::CloseResponse(x)))\n            }\n        }\n    }\n}\n\n#[derive(PartialEq, Eq, Clone)]\n/// `SML_GetList.Res` message"),
 ("c04_msg_arity_ge", "C04 C09", "src/parser/complete.rs",
  "if tlf.ty != super::tlf::Ty::ListOf || tlf.len != 6 {", "if tlf.ty != super::tlf::Ty::ListOf || tlf.len < 6 {"),
 ("c05_raw_msg_len_u16", "C05 C17 C01", "src/transport/decode.rs",
  "        let num_discarded = match self.state {\n            DecodeState::Done => 0,\n            _ => self.raw_msg_len,\n        };", "        let num_discarded = match self.state {\n            DecodeState::Done => 0,\n            _ => self.raw_msg_len as u16 as usize,\n        };"),
 ("c17_init_seq_not_counted", "C17 C08", "src/transport/decode.rs",
  "                    *num_discarded_bytes += 1 + usize::from(*num_init_seq_bytes);\n                    *num_init_seq_bytes = 0;", "                    *num_discarded_bytes += 1;\n                    *num_init_seq_bytes = 0;"),
 ("c06_with_capacity_restored", "C06 C09", "src/parser/complete.rs",
  "let mut v = Vec::with_capacity((tlf.len as usize).min(input.len() / 8));", "let mut v = Vec::with_capacity(tlf.len as usize);"),
 ("c06_take_n_le", "C06 C04 C12", "src/parser/mod.rs",
  "fn take_n(input: &[u8], n: usize) -> ResTy<&[u8]> {\n    if input.len() < n {", "fn take_n(input: &[u8], n: usize) -> ResTy<&[u8]> {\n    if input.len() + 1 < n {"),
 ("c07_padding_saturating", "C07 C01", "src/transport/encode.rs",
  "self.0 = self.0.wrapping_sub(1);", "self.0 = self.0.saturating_sub(1);"),
 ("c07_escape_after_5", "C07 C01", "src/transport/encode.rs",
  "        if num_1b == 4 {\n            res.extend_from_slice(&[0x1b; 4])?;", "        if num_1b == 5 {\n            res.extend_from_slice(&[0x1b; 4])?;"),
 ("c07_iter_crc_excludes_pad", "C07 C01", "src/transport/encode.rs",
  "self.crc.update(&[0x1b, 0x1b, 0x1b, 0x1b, 0x1a, padding]);", "self.crc.update(&[0x1b, 0x1b, 0x1b, 0x1b, 0x1a, 0]);"),
 ("c07_iter_restarts", "C07", "src/transport/encode.rs",
  "                    8 => {\n                        return None;\n                    }", "                    8 => {\n                        self.state = Init(0);\n                        return None;\n                    }"),
 ("c08_done_drops_byte", "C08 C01 C14", "src/transport/decode.rs",
  "                self.reset(buf);\n                return self.push_byte(buf, b);", "                self.reset(buf);\n                return Ok(false);"),
 ("c08_prefix_matcher_restored", "C08 C10", "src/transport/decode.rs",
  "let keep: u8 = if *num_init_seq_bytes == 4 { 4 } else { 1 };", "let keep: u8 = 0;"),
 ("c09_streaming_crc_before_end", "C09", "src/parser/streaming.rs",
  "                let (input, _) = EndOfSmlMessage::parse(input)?;\n                self.input = input;\n\n                // validate crc16\n                let digest = CRC_X25\n                    .checksum(&self.msg_input[0..num_bytes_read])\n                    .swap_bytes();\n                if digest != crc {\n                    return Err(ParseError::CrcMismatch);\n                }\n",
  "                // validate crc16\n                let digest = CRC_X25\n                    .checksum(&self.msg_input[0..num_bytes_read])\n                    .swap_bytes();\n                if digest != crc {\n                    return Err(ParseError::CrcMismatch);\n                }\n                let (input, _) = EndOfSmlMessage::parse(input)?;\n                self.input = input;\n"),
 ("c13_error_clears_only_input", "C13", "src/parser/streaming.rs",
  "            self.input = &[];\n            self.pending_list_entries = 0;", "            self.input = &[];"),
 ("c11_wouldblock_resets", "C11 C10", "src/transport/decoder_reader.rs",
  "                        ErrKind::WouldBlock => 0,", "                        ErrKind::WouldBlock => {\n                            self.decoder.reset();\n                            0\n                        }"),
 ("c11_other_reports_zero", "C11 C17", "src/transport/decoder_reader.rs",
  "                        ErrKind::Eof | ErrKind::Other => {\n                            // reset the decoder and return how many bytes were discarded\n                            self.decoder.reset()\n                        }", "                        ErrKind::Eof => self.decoder.reset(),\n                        ErrKind::Other => {\n                            self.decoder.reset();\n                            0\n                        }"),
 ("c11_other_does_not_reset", "C11 C17", "src/transport/decoder_reader.rs",
  "                        ErrKind::Eof | ErrKind::Other => {\n                            // reset the decoder and return how many bytes were discarded\n                            self.decoder.reset()\n                        }", "                        ErrKind::Eof => self.decoder.reset(),\n                        ErrKind::Other => 0,"),
 ("c15_decode_forgets_finalize", "C15", "src/transport/decode.rs",
  "    if let Some(e) = decoder.finalize() {\n        res.push(Err(e));\n    }\n    res", "    res"),
 ("c15_iter_finalizes_twice", "C15 C05", "src/transport/decode.rs",
  "                None => {\n                    self.done = true;\n                    return self.decoder.finalize().map(Err);", "                None => {\n                    return self.decoder.finalize().map(Err);"),
 ("c14_reset_forgets_zero_cache", "C14", "src/transport/decode.rs",
  "        self.raw_msg_len = 0;\n        self.zero_cache = 0;\n        num_discarded", "        self.raw_msg_len = 0;\n        num_discarded"),
 ("c14_reset_forgets_buf_clear", "C14 C01", "src/transport/decode.rs",
  "        buf.clear();\n        self.raw_msg_len = 0;", "        self.raw_msg_len = 0;"),
 ("c14_crc_not_reinit_at_start", "C14 C01", "src/transport/decode.rs",
  "                    self.raw_msg_len = 8;\n                    self.crc = CRC_X25.digest();\n                    self.crc\n                        .update(&[0x1b, 0x1b, 0x1b, 0x1b, 0x01, 0x01, 0x01, 0x01]);\n                    if num_discarded_bytes > 0 {", "                    self.raw_msg_len = 8;\n                    self.crc\n                        .update(&[0x1b, 0x1b, 0x1b, 0x1b, 0x01, 0x01, 0x01, 0x01]);\n                    if num_discarded_bytes > 0 {"),
 ("c16_oom_does_not_reset", "C16 C14", "src/transport/decode.rs",
  "        if buf.push(b).is_err() {\n            self.reset(buf);\n            return Err(DecodeErr::OutOfMemory);", "        if buf.push(b).is_err() {\n            return Err(DecodeErr::OutOfMemory);"),
 ("c18_extend_writes_before_check", "C18", "src/util.rs",
  "        if self.num_elements + other.len() > N {\n            return Err(OutOfMemory);\n        }\n        self.buffer[self.num_elements..][..other.len()].copy_from_slice(other);",
  "        let room = N - self.num_elements;\n        let n = other.len().min(room);\n        self.buffer[self.num_elements..][..n].copy_from_slice(&other[..n]);\n        if other.len() > room {\n            self.num_elements += n;\n            return Err(OutOfMemory);\n        }"),
 ("c18_truncate_max", "C18", "src/util.rs",
  "self.num_elements = self.num_elements.min(len);", "self.num_elements = if len <= N { len.min(self.num_elements.max(len)) } else { self.num_elements };"),
 ("c18_eq_whole_array", "C18", "src/util.rs",
  "        **self == **other\n", "        self.num_elements == other.num_elements && self.buffer == other.buffer\n"),
 ("c18_push_check_gt", "C18 C16", "src/util.rs",
  "        if self.num_elements == N {\n            Err(OutOfMemory)", "        if self.num_elements + 1 > N && N != 0 && self.num_elements >= N {\n            Err(OutOfMemory)\n        } else if N == 0 {\n            Ok(())"),
 ("c10_eof_pending_returns_none", "C10 C11 C15", "src/transport/decoder_reader.rs",
  "            Err(ReadDecodedError::IoErr(e, 0)) if e.is_eof() => None,", "            Err(ReadDecodedError::IoErr(e, _)) if e.is_eof() => None,"),
]

def main():
    subprocess.run(["git", "-C", "/repo", "worktree", "remove", "--force", W], capture_output=True)
    shutil.rmtree(W, ignore_errors=True)
    subprocess.run(["git", "-C", "/repo", "worktree", "add", "-q", "--detach", W, "HEAD"], check=True)
    os.makedirs(OUT, exist_ok=True)
    idx = []
    for name, props, f, old, new in M:
        path = os.path.join(W, f)
        s = open(path).read()
        if s.count(old) != 1:
            print("SKIP %s: pattern occurs %d times" % (name, s.count(old)))
            continue
        open(path, "w").write(s.replace(old, new))
        d = subprocess.run(["git", "-C", W, "diff", "--", "src"], capture_output=True, text=True).stdout
        open(os.path.join(OUT, name + ".diff"), "w").write(d)
        subprocess.run(["git", "-C", W, "checkout", "--", "."], check=True)
        idx.append((name, props))
    open(os.path.join(OUT, "INDEX.txt"), "w").write("".join("%s %s\n" % (n, p) for n, p in idx))
    subprocess.run(["git", "-C", "/repo", "worktree", "remove", "--force", W])
    print("generated", len(idx))

main()
