#!/usr/bin/env python3
"""Collects the mutants delivered by the independent sub-agents (/tmp/mut/<ID>/out_<x>.{patch,_demo.rs,md}),
re-verifies each one in a scratch worktree of /repo (outside /repo and /verif) and keeps the verified ones as
/verif/seeded/<ID>-<x>/{patch.diff, demo.rs, notes.md, meta.json}.

Verified means, all confirmed here and recorded in meta.json:
  1. the demonstration PASSES on the clean tree,
  2. the patch applies, the crate builds (default and all features),
  3. the complete existing test suite passes with the patch applied,
  4. the demonstration FAILS with the patch applied.
Usage: tools/collect_seeded.py [ID ...]   (default: every /tmp/mut/C??)"""
import glob, json, os, re, shutil, subprocess, sys, time

SRC = os.environ.get("SEED_SRC", "/tmp/mut")
WT = os.environ.get("SEED_WT", "/tmp/seedverify")
OUT = "/verif/seeded"


def sh(cmd, cwd=None, timeout=1200):
    p = subprocess.run(cmd, shell=True, cwd=cwd, stdout=subprocess.PIPE, stderr=subprocess.STDOUT, text=True, timeout=timeout)
    return p.returncode, p.stdout


def suite_ok(out):
    res = re.findall(r"^test result: (\w+)\. (\d+) passed; (\d+) failed", out, re.M)
    return bool(res) and all(r[0] == "ok" and r[2] == "0" for r in res) and sum(int(r[1]) for r in res) >= 84, res


def main():
    ids = sys.argv[1:] or sorted(os.path.basename(p) for p in glob.glob(SRC + "/C??*") if os.path.isdir(p))
    sh("git -C /repo worktree remove --force %s" % WT)
    shutil.rmtree(WT, ignore_errors=True)
    rc, o = sh("git -C /repo worktree add -q --detach %s HEAD" % WT)
    assert rc == 0, o
    shutil.copy("/repo/Cargo.lock", WT + "/Cargo.lock")
    props = {json.loads(l)["id"]: json.loads(l) for l in open("/verif/properties.jsonl")}
    os.makedirs(OUT, exist_ok=True)
    summary = []
    try:
        for pid in ids:
            for x in "abc":
                patch = "%s/%s/out_%s.patch" % (SRC, pid, x)
                demo = "%s/%s/out_%s_demo.rs" % (SRC, pid, x)
                notes = "%s/%s/out_%s.md" % (SRC, pid, x)
                if not (os.path.exists(patch) and os.path.exists(demo)):
                    continue
                sid = "%s-%s" % (pid, x)
                t0 = time.time()
                ver = {}
                sh("git checkout -- . && rm -f tests/demo_seed.rs", cwd=WT)
                # 1. demo on the clean tree
                shutil.copy(demo, WT + "/tests/demo_seed.rs")
                rc, o = sh("cargo test --offline --features nb,embedded-hal-02 --test demo_seed 2>&1 | tail -30", cwd=WT)
                clean_pass = "test result: ok" in o and "FAILED" not in o
                ver["demo_on_clean_tree"] = "PASS" if clean_pass else "FAIL: " + o[-400:]
                os.remove(WT + "/tests/demo_seed.rs")
                # 2. apply + build
                rc, o = sh("git apply --whitespace=nowarn %s" % patch, cwd=WT)
                ver["patch_applies"] = rc == 0
                if rc != 0:
                    ver["apply_error"] = o[-300:]
                    summary.append((sid, "REJECTED patch does not apply"))
                    continue
                rc, o = sh("cargo build --offline --all-features 2>&1 | tail -5", cwd=WT)
                ver["builds_all_features"] = "Finished" in o
                # 3. existing suite
                rc, o = sh("cargo test --workspace --no-fail-fast --offline 2>&1", cwd=WT)
                ok, res = suite_ok(o)
                ver["existing_suite_with_patch"] = "PASS %s" % res if ok else "FAIL %s %s" % (res, "\n".join(l for l in o.splitlines() if "FAILED" in l or "panicked" in l)[:600])
                # 4. demo with the patch
                shutil.copy(demo, WT + "/tests/demo_seed.rs")
                rc, o = sh("cargo test --offline --features nb,embedded-hal-02 --test demo_seed 2>&1 | tail -40", cwd=WT)
                mut_fail = "FAILED" in o or "test result: FAILED" in o
                ver["demo_with_patch"] = "FAIL (as required)" if mut_fail else "PASS (mutant not demonstrated): " + o[-300:]
                os.remove(WT + "/tests/demo_seed.rs")
                sh("git checkout -- .", cwd=WT)
                good = clean_pass and ver["builds_all_features"] and ok and mut_fail
                ver["seconds"] = round(time.time() - t0, 1)
                if not good:
                    summary.append((sid, "REJECTED %s" % json.dumps(ver)[:300]))
                    continue
                d = os.path.join(OUT, sid)
                os.makedirs(d, exist_ok=True)
                shutil.copy(patch, d + "/patch.diff")
                shutil.copy(demo, d + "/demo.rs")
                needs = ""
                if os.path.exists(notes):
                    shutil.copy(notes, d + "/notes.md")
                    needs = open(notes).read()[:1500]
                meta = {
                    "id": sid,
                    "property": pid[:3],
                    "property_title": props[pid[:3]]["title"],
                    "origin": "independent sub-agent given only the property text and a scratch worktree (/tmp/mut/%s)" % pid,
                    "files_changed": sorted(set(re.findall(r"^\+\+\+ b/(\S+)", open(patch).read(), re.M))),
                    "needs_to_manifest": "see notes.md (written by the sub-agent); excerpt: " + needs[:600],
                    "verified_in_scratch_worktree": ver,
                    "how_verified": "tools/collect_seeded.py: scratch worktree %s of /repo HEAD; demo on clean tree; git apply; cargo build --offline --all-features; cargo test --workspace --no-fail-fast --offline; demo with patch" % WT,
                    "checks_run": None,
                }
                json.dump(meta, open(d + "/meta.json", "w"), indent=1)
                summary.append((sid, "KEPT (%.0fs)" % ver["seconds"]))
                print(sid, summary[-1][1], flush=True)
    finally:
        sh("git -C /repo worktree remove --force %s" % WT)
        shutil.rmtree(WT, ignore_errors=True)
    for s in summary:
        print("%s %s" % s)


if __name__ == "__main__":
    main()
