#!/usr/bin/env python3
"""Apply a patch to /repo, run quick checks, undo the patch. Usage:
   tools/mutant_eval.py <patch.diff> [PROP ...]      (default: all 18 properties)
Prints one line per property: OK / VIOLATION / INCONCLUSIVE and a summary line `CAUGHT-BY: ...`.
The patch is always reverted (git -C /repo checkout -- .)."""
import subprocess, sys, os, json, re

ROOT = os.path.dirname(os.path.dirname(os.path.abspath(__file__)))
ALL = ["C%02d" % i for i in range(1, 19)]
REPO = os.environ.get("VERIF_REPO", "/repo")

def main():
    args = [a for a in sys.argv[1:] if not a.startswith("--")]
    with_tests = "--with-tests" in sys.argv
    tier = "thorough" if "--thorough" in sys.argv else "quick"
    patch = os.path.abspath(args[0])
    props = args[1:] or ALL
    st = subprocess.run(["git", "-C", REPO, "status", "--porcelain", "--untracked-files=no"], capture_output=True, text=True).stdout.strip()
    if st:
        print("refusing: /repo has local modifications:\n" + st)
        return 2
    r = subprocess.run(["git", "-C", REPO, "apply", "--whitespace=nowarn", patch], capture_output=True, text=True)
    if r.returncode != 0:
        print("PATCH-DOES-NOT-APPLY", r.stderr.strip()[:500])
        return 2
    caught, incon = [], []
    try:
        if with_tests:
            t = subprocess.run("cd %s &&" % REPO + " cargo test --workspace --no-fail-fast --offline 2>&1 | grep -E '^test result|panicked|FAILED' | head -20", shell=True, capture_output=True, text=True).stdout
            ok = "FAILED" not in t and "failed" not in t.replace("0 failed", "") and t.count("test result: ok") >= 3
            print("EXISTING-TESTS: %s" % ("PASS" if ok else "FAIL " + t.replace("\n", " | ")[:400]))
        for p in props:
            env = dict(os.environ)
            out = subprocess.run([os.path.join(ROOT, "check"), p, "--tier", tier], capture_output=True, text=True, env=env, cwd=ROOT)
            lines = out.stdout.splitlines()
            first = next((l for l in lines if l.startswith("  [")), "")
            if out.returncode == 1:
                caught.append(p)
                print("%s VIOLATION %s" % (p, first.strip()[:260]))
            elif out.returncode == 0:
                print("%s OK" % p)
            else:
                incon.append(p)
                why = next((l for l in lines if l.startswith("INCONCLUSIVE") or l.startswith("BUILD-ERROR")), "")
                print("%s INCONCLUSIVE(rc=%d) %s" % (p, out.returncode, why[:260]))
    finally:
        subprocess.run(["git", "-C", REPO, "checkout", "--", "."])
        # evidence files were rewritten by runs on a patched tree: restore the committed ones
        subprocess.run(["git", "-C", ROOT, "checkout", "--", "evidence"], capture_output=True)
        subprocess.run("rm -f %s/replays/*.json" % ROOT, shell=True)
    print("CAUGHT-BY: %s ; INCONCLUSIVE: %s" % (" ".join(caught) or "-", " ".join(incon) or "-"))
    return 0

if __name__ == "__main__":
    sys.exit(main())
