#!/usr/bin/env python3
"""Collects the per-mutant logs written by tools/batch_mutants.sh (possibly inside vp-run snapshots) into a
markdown table. Usage: tools/aggregate_results.py <out.md> <results-dir> [<results-dir> ...]"""
import glob, os, re, sys

def parse(path):
    t = open(path).read()
    tests = "?"
    m = re.search(r"^EXISTING-TESTS: (\w+)", t, re.M)
    if m:
        tests = m.group(1)
    caught, incon = [], []
    m = re.search(r"^CAUGHT-BY: (.*?) ; INCONCLUSIVE: (.*)$", t, re.M)
    if m:
        caught = [x for x in m.group(1).split() if x != "-"]
        incon = [x for x in m.group(2).split() if x != "-"]
    first = {}
    for l in t.splitlines():
        mm = re.match(r"^(C\d+) VIOLATION (.*)$", l)
        if mm:
            first[mm.group(1)] = mm.group(2)[:140]
    ran = re.findall(r"^(C\d+) (?:OK|VIOLATION|INCONCLUSIVE)", t, re.M)
    return tests, caught, incon, first, ran

def main():
    out = sys.argv[1]
    rows = []
    for d in sys.argv[2:]:
        for f in sorted(glob.glob(os.path.join(d, "*.log"))):
            name = os.path.basename(f)[:-4]
            rows.append((name,) + parse(f))
    rows.sort()
    with open(out, "w") as o:
        o.write("| mutant | existing tests | checks run | caught by | inconclusive | first report |\n|---|---|---|---|---|---|\n")
        for name, tests, caught, incon, first, ran in rows:
            fr = ""
            if caught:
                fr = "%s: %s" % (caught[0], first.get(caught[0], "").replace("|", "\\|"))
            o.write("| %s | %s | %s | %s | %s | %s |\n" % (name, tests, len(ran), " ".join(caught) or "**none**", " ".join(incon) or "-", fr))
    print("rows", len(rows))

main()
