#!/usr/bin/env python3
"""Writes the outcome of the check runs into seeded/<id>/meta.json and produces seeded/RESULTS.md.
Sources: seeded/results/<id>.log (runs with the patch applied to /repo itself, tools/batch_mutants.sh without VP_RUN_REPO)
and, for the full 18-check matrix, seeded/results_snapshot/<id>.log (same tool inside a `vp run --with-repo` snapshot)."""
import glob, json, os, re, subprocess

ROOT = os.path.dirname(os.path.dirname(os.path.abspath(__file__)))

def parse(path):
    if not os.path.exists(path):
        return None
    t = open(path).read()
    res = {}
    for l in t.splitlines():
        m = re.match(r"^(C\d+) (OK|VIOLATION|INCONCLUSIVE)(.*)$", l)
        if m:
            res[m.group(1)] = (m.group(2), m.group(3).strip()[:200])
    tests = re.search(r"^EXISTING-TESTS: (\w+)", t, re.M)
    return {"tests": tests.group(1) if tests else "?", "res": res}

def main():
    head = subprocess.run(["git", "-C", ROOT, "rev-parse", "--short", "HEAD"], capture_output=True, text=True).stdout.strip()
    rows = []
    for d in sorted(glob.glob(os.path.join(ROOT, "seeded", "C*-?"))):
        sid = os.path.basename(d)
        mp = os.path.join(d, "meta.json")
        if not os.path.exists(mp):
            continue
        meta = json.load(open(mp))
        live = parse(os.path.join(ROOT, "seeded", "results", sid + ".log"))
        snap = parse(os.path.join(ROOT, "seeded", "results_snapshot", sid + ".log"))
        cr = {}
        if live:
            cr["applied_to_repo"] = {
                "how": "git -C /repo apply seeded/%s/patch.diff ; ./check <ID> --tier quick for the listed checks ; git -C /repo checkout -- . (tools/mutant_eval.py)" % sid,
                "existing_tests_with_patch": live["tests"],
                "caught_by": sorted(k for k, v in live["res"].items() if v[0] == "VIOLATION"),
                "silent": sorted(k for k, v in live["res"].items() if v[0] == "OK"),
                "inconclusive": sorted(k for k, v in live["res"].items() if v[0] == "INCONCLUSIVE"),
                "first_reports": {k: v[1] for k, v in live["res"].items() if v[0] == "VIOLATION"},
            }
        if snap:
            cr["all_18_checks_in_snapshot_run"] = {
                "how": "same tool inside `vp run --with-repo` (patch applied to the run's snapshot of /repo, harness pointed at it)",
                "caught_by": sorted(k for k, v in snap["res"].items() if v[0] == "VIOLATION"),
                "inconclusive": sorted(k for k, v in snap["res"].items() if v[0] == "INCONCLUSIVE"),
                "checks_run": len(snap["res"]),
            }
        meta["checks_run"] = cr
        json.dump(meta, open(mp, "w"), indent=1)
        live_c = cr.get("applied_to_repo", {}).get("caught_by", [])
        snap_c = cr.get("all_18_checks_in_snapshot_run", {}).get("caught_by", [])
        target = meta["property"]
        rows.append((sid, target, live_c, snap_c, cr.get("applied_to_repo", {}).get("first_reports", {})))
    with open(os.path.join(ROOT, "seeded", "RESULTS.md"), "w") as o:
        o.write("# Seeded mutants (independent sub-agents) vs. the checks\n\n")
        o.write("`applied to /repo` = patch applied to /repo itself, listed checks run, patch undone. `snapshot` = all 18 checks, run in a `vp run --with-repo` snapshot (possibly with an earlier harness commit).\n\n")
        o.write("| mutant | target | caught (applied to /repo) | caught (snapshot, 18 checks) | target check catches it | first report of the target check |\n|---|---|---|---|---|---|\n")
        for sid, target, live_c, snap_c, fr in rows:
            allc = set(live_c) | set(snap_c)
            o.write("| %s | %s | %s | %s | %s | %s |\n" % (sid, target, " ".join(live_c) or "-", " ".join(snap_c) or "-", "yes" if target in allc else ("no" if allc else "**MISSED**"), fr.get(target, "")[:120].replace("|", "\\|")))
    missed = [r[0] for r in rows if not (set(r[2]) | set(r[3]))]
    print("rows", len(rows), "missed", missed)

main()
